(* DbgProofs.v — theorems about the debugger model (Dbg.v): C09 transparency, C11 breakpoints,
   C12 reset, C13 confinement, C16 progress. *)
From Coq Require Import ZArith Lia Sorted.
From Lace Require Import Word Machine Isa Vm VmProofs RunProofs Asm Dbg.
Open Scope N_scope.

Arguments say_lines : simpl never.

Ltac break_match :=
  match goal with
  | |- context [match ?x with _ => _ end] =>
      lazymatch x with
      | context [match _ with _ => _ end] => fail
      | _ => destruct x eqn:?
      end
  end.

Ltac break_match_hyp H :=
  match type of H with
  | context [match ?x with _ => _ end] =>
      lazymatch x with
      | context [match _ with _ => _ end] => fail
      | _ => destruct x eqn:?
      end
  end.

(* ------------------------------------------------------------------ *)
(** * The saved initial state is never written (C12) *)

Lemma say_lines_init ls : forall d, d_init (say_lines d ls) = d_init d.
Proof. unfold say_lines. induction ls as [|l r IH]; intros d; cbn; [reflexivity|]. rewrite IH. reflexivity. Qed.

Lemma say_lines_bps ls : forall d, d_bps (say_lines d ls) = d_bps d.
Proof. unfold say_lines. induction ls as [|l r IH]; intros d; cbn; [reflexivity|]. rewrite IH. reflexivity. Qed.

Lemma say_lines_status ls : forall d, d_status (say_lines d ls) = d_status d.
Proof. unfold say_lines. induction ls as [|l r IH]; intros d; cbn; [reflexivity|]. rewrite IH. reflexivity. Qed.

Lemma resolve_location_init env d st m a d' :
  resolve_location env d st m = (a, d') -> d_init d' = d_init d /\ d_bps d' = d_bps d /\ d_status d' = d_status d.
Proof.
  unfold resolve_location. intros H.
  repeat break_match_hyp H; inversion H; subst; auto.
Qed.

Lemma expect_userspace_init d st a b d' :
  expect_userspace d st a = (b, d') -> d_init d' = d_init d /\ d_bps d' = d_bps d /\ d_status d' = d_status d.
Proof. unfold expect_userspace. destruct (in_userspace st a); intros H; inversion H; subst; auto. Qed.

Definition cmd_dbg (r : cmd_result) : dbg :=
  match r with CmdAction _ d _ | CmdNone d _ | CmdStop _ d => d end.

Lemma run_command_init env c d st : d_init (cmd_dbg (run_command env c d st)) = d_init d.
Proof.
  unfold run_command.
  destruct c as [ | | | | | |l|l v|m|m| | | | | | |m|m| ]; cbn [cmd_dbg];
    repeat break_match; cbn [cmd_dbg];
    repeat match goal with
    | H : resolve_location _ _ _ _ = _ |- _ => apply resolve_location_init in H; destruct H as (?&?&?)
    | H : expect_userspace _ _ _ = _ |- _ => apply expect_userspace_init in H; destruct H as (?&?&?)
    end; cbn in *; rewrite ?say_lines_init; cbn in *; congruence.
Qed.

Lemma dispatch_status_init d st : d_init (snd (dispatch_status d st)) = d_init d.
Proof. unfold dispatch_status. repeat break_match; reflexivity. Qed.

Lemma check_interrupts_init d st : d_init (check_interrupts d st) = d_init d.
Proof. unfold check_interrupts. repeat break_match; reflexivity. Qed.

Definition na_dbg (r : na_result) : dbg :=
  match r with NaAction _ d _ _ _ | NaStop _ d _ _ => d end.

Lemma wait_loop_init env script : forall d st n, d_init (na_dbg (wait_loop env script d st n)) = d_init d.
Proof.
  induction script as [|c rest IH]; intros d st n; cbn [wait_loop na_dbg]; [reflexivity|].
  pose proof (run_command_init env c d st) as K.
  destruct (run_command env c d st) as [a d1 st1|d1 st1|r d1]; cbn [cmd_dbg na_dbg] in *; try exact K.
  pose proof (dispatch_status_init d1 st1) as K2.
  destruct (dispatch_status d1 st1) as [[a|] d2]; cbn [snd na_dbg] in *; [congruence|].
  rewrite IH. congruence.
Qed.

Lemma next_action_init env script d st : d_init (na_dbg (next_action env script d st)) = d_init d.
Proof.
  unfold next_action.
  set (d1 := if (s_pc st <? s_orig st) || (65024 <=? s_pc st) then _ else d).
  assert (H1 : d_init d1 = d_init d) by (unfold d1; break_match; reflexivity).
  pose proof (check_interrupts_init d1 st) as H2.
  pose proof (dispatch_status_init (check_interrupts d1 st) st) as H3.
  destruct (dispatch_status (check_interrupts d1 st) st) as [[a|] d3]; cbn [snd na_dbg] in *; [congruence|].
  rewrite wait_loop_init. congruence.
Qed.

Definition tick_dbg (r : tick_result) : dbg :=
  match r with TStop _ _ _ d _ _ | TDetach d _ _ | TNext _ d _ _ _ => d end.

Lemma tick_init env script d st : d_init (tick_dbg (tick env script d st)) = d_init d.
Proof.
  unfold tick. pose proof (next_action_init env script d st) as K.
  destruct (next_action env script d st) as [a d1 st1 rest n|r d1 rest n]; cbn [na_dbg] in K.
  - destruct a; cbn [tick_dbg]; try exact K.
    repeat break_match; cbn [tick_dbg]; exact K.
  - destruct r; cbn [tick_dbg]; exact K.
Qed.

(** Whatever the script, the program and the user do, the saved initial state of a session that is
    still attached at its end is the one it was created with. *)
Theorem session_init env fuel : forall script d st t e c dd,
  sr_dbg (session env fuel script d st t e c) = Some dd -> d_init dd = d_init d.
Proof.
  induction fuel as [|fuel IH]; intros script d st t e c dd H; cbn [session] in H.
  - inversion H; reflexivity.
  - pose proof (tick_init env script d st) as K.
    destruct (tick env script d st) as [k code st' d1 e' n|d1 st1 n|rest d1 st1 e' n]; cbn [tick_dbg] in K.
    + cbn in H. inversion H; subst. exact K.
    + unfold of_vm in H. destruct (fst (vm_run (e_feat env) fuel st1 [])); discriminate.
    + rewrite (IH _ _ _ _ _ _ _ H). exact K.
Qed.

(** `reset` puts every register, the PC, the condition code, the origin and all memory back. *)
Theorem reset_restores env d st :
  exists d', run_command env CReset d st = CmdNone d' (set_out (set_inp (d_init d) (s_inp st)) (s_out st))
             /\ d_bps d' = d_bps d /\ d_status d' = d_status d.
Proof. eexists. split; [reflexivity|]. split; reflexivity. Qed.

Lemma reset_state_fields i inp out :
  let st' := set_out (set_inp i inp) out in
  s_regs st' = s_regs i /\ s_pc st' = s_pc i /\ s_cc st' = s_cc i /\ s_mem st' = s_mem i /\ s_orig st' = s_orig i.
Proof. cbn. repeat split. Qed.

(* ------------------------------------------------------------------ *)
(** * Confinement of debugger writes (C13) *)

Lemma add_address_offset_spec orig a off x :
  add_address_offset orig a off = Some x ->
  orig <= x /\ x < 65024 /\ Z.of_N x = (Z.of_N a + signed16 off)%Z.
Proof.
  unfold add_address_offset.
  destruct (Z.leb_spec (Z.of_N orig) (Z.of_N a + signed16 off)) as [Hlo|Hlo];
  destruct (Z.ltb_spec (Z.of_N a + signed16 off) 65024) as [Hhi|Hhi]; cbn [andb]; try discriminate.
  intros Hx; inversion Hx; subst. rewrite Z2N.id by lia. repeat split; lia.
Qed.

(** Whatever the spelling, a location that resolves through a label or a PC offset lies in user
    space and is the exact (unwrapped) sum. *)
Lemma resolve_location_confined env d st m a d' :
  resolve_location env d st m = (Some a, d') ->
  match m with
  | MAddr a0 => a = a0
  | MPcOff off => s_orig st <= a /\ a < 65024 /\ Z.of_N a = (Z.of_N (s_pc st) + signed16 off)%Z
  | MLabel name off => s_orig st <= a /\ a < 65024
  end.
Proof.
  unfold resolve_location. destruct m as [a0|off|name off]; intros H.
  - inversion H; reflexivity.
  - destruct (add_address_offset _ _ off) eqn:E; inversion H; subst. apply add_address_offset_spec. exact E.
  - destruct (sym_get _ name); [|inversion H].
    destruct (add_address_offset _ _ off) eqn:E; inversion H; subst.
    apply add_address_offset_spec in E. tauto.
Qed.

Definition writes_cmd (c : cmd) : option memloc :=
  match c with
  | CMove (LMem m) _ | CGoto m | CBreakAdd m | CBreakRemove m => Some m
  | _ => None
  end.

(** A write command whose target is outside [origin, xFE00) changes nothing and says so. *)
Theorem refuse_outside env c m d st :
  writes_cmd c = Some m ->
  (forall a d', resolve_location env (set_icount d 0) st m = (Some a, d') -> in_userspace st a = false) ->
  exists d', run_command env c d st = CmdNone d' st /\ d_bps d' = d_bps d /\
             d_status d' = d_status d /\ (exists line rest, d_err d' = line :: rest /\ exists k, rest = k ++ d_err d).
Proof.
  intros Hw Hout.
  assert (Hres : forall a d1, resolve_location env (set_icount d 0) st m = (a, d1) ->
            d_bps d1 = d_bps d /\ d_status d1 = d_status d /\
            match a with
            | Some _ => d_err d1 = d_err d
            | None => exists line, d_err d1 = line :: d_err d
            end).
  { intros a d1 H. pose proof (resolve_location_init _ _ _ _ _ _ H) as (_ & Hb & Hs).
    split; [exact Hb|]. split; [exact Hs|].
    unfold resolve_location in H. destruct m as [a0|off|name off].
    - inversion H; subst; reflexivity.
    - destruct (add_address_offset _ _ off); inversion H; subst; [reflexivity|eexists; reflexivity].
    - destruct (sym_get _ name); [|inversion H; subst; eexists; reflexivity].
      destruct (add_address_offset _ _ off); inversion H; subst; [reflexivity|eexists; reflexivity]. }
  destruct c as [ | | | | | |l|l v|m0|m0| | | | | | |m0|m0| ]; cbn in Hw; try discriminate;
    try (destruct l as [r|m0]; [discriminate|]); inversion Hw; subst m0; cbn [run_command];
    destruct (resolve_location env (set_icount d 0) st m) as [[a|] d1] eqn:E;
    pose proof (Hres _ _ eq_refl) as (Hb & Hs & He).
  all: try (destruct He as [line He]; exists d1; split; [reflexivity|]; split; [exact Hb|]; split; [exact Hs|];
            exists line, (d_err d); split; [exact He|exists []; reflexivity]).
  all: specialize (Hout a d1 eq_refl); unfold expect_userspace; rewrite Hout;
       eexists; split; [reflexivity|]; cbn; split; [exact Hb|]; split; [exact Hs|];
       exists L_OOB_ADDRESS, (d_err d1); split; [reflexivity|]; exists []; rewrite He; reflexivity.
Qed.

(** `move` to a register changes that register and nothing else. *)
Theorem move_reg_frame env d st r v : r < 8 ->
  exists d', run_command env (CMove (LReg r) v) d st = CmdNone d' (set_reg st r v) /\
             d_bps d' = d_bps d /\
             R (set_reg st r v) r = v /\
             (forall r', r' < 8 -> r' <> r -> R (set_reg st r v) r' = R st r') /\
             s_mem (set_reg st r v) = s_mem st /\ s_pc (set_reg st r v) = s_pc st /\
             s_cc (set_reg st r v) = s_cc st.
Proof.
  intros Hr. eexists. split; [reflexivity|]. split; [reflexivity|].
  split; [unfold R; cbn; apply rget_rset_same|].
  split; [|repeat split].
  intros r' Hr' Hne. unfold R; cbn. apply rget_rset_other; auto.
Qed.

(** `move` to memory changes exactly the named word, and only if it is in user space. *)
Theorem move_mem_frame env d st m v d' st' :
  run_command env (CMove (LMem m) v) d st = CmdNone d' st' ->
  st' = st \/
  (exists a, in_userspace st a = true /\ st' = set_mem st a v /\
             M st' a = v /\ (forall b, b <> a -> M st' b = M st b) /\
             s_regs st' = s_regs st /\ s_pc st' = s_pc st /\ s_cc st' = s_cc st).
Proof.
  cbn [run_command]. destruct (resolve_location env (set_icount d 0) st m) as [[a|] d1]; [|intros H; inversion H; auto].
  unfold expect_userspace. destruct (in_userspace st a) eqn:E; intros H; inversion H; subst; [|auto].
  right. exists a. split; [exact E|]. split; [reflexivity|].
  split; [unfold M; cbn; apply mget_mset_same|].
  split; [intros b Hb; unfold M; cbn; apply mget_mset_other; congruence|]. repeat split.
Qed.

(** Inspection and execution-control commands never change the machine. *)
Definition readonly_cmd (c : cmd) : Prop :=
  match c with
  | CStepOver | CStepInto _ | CStepOut | CContinue | CRegisters | CPrint _ | CAssembly _ | CEcho _
  | CHelp | CBreakList | CBreakAdd _ | CBreakRemove _ | CQuit | CBad => True
  | _ => False
  end.

Lemma run_command_readonly env c d st : readonly_cmd c ->
  match run_command env c d st with
  | CmdAction a _ st' => st' = st /\ a = StopDebugger
  | CmdNone _ st' => st' = st
  | CmdStop _ _ => False
  end.
Proof.
  intros H. unfold run_command.
  destruct c as [ | | | | | |l|l v|m|m| | | | | | |m|m| ]; cbn in H; try contradiction;
    repeat break_match; auto.
Qed.

(** ... and `print`, `registers`, `assembly`, `break list` change neither machine nor breakpoints. *)
Theorem inspection_changes_nothing env c d st :
  match c with CPrint _ | CRegisters | CAssembly _ | CBreakList | CEcho _ | CHelp => True | _ => False end ->
  exists d', run_command env c d st = CmdNone d' st /\ d_bps d' = d_bps d /\ d_status d' = d_status d.
Proof.
  intros H. unfold run_command.
  destruct c as [ | | | | | |l|l v|m|m| | | | | | |m|m| ]; try contradiction;
    repeat break_match;
    repeat match goal with
    | H : resolve_location _ _ _ _ = _ |- _ => apply resolve_location_init in H; destruct H as (?&?&?)
    end;
    eexists; (split; [reflexivity|]); cbn in *; rewrite ?say_lines_bps, ?say_lines_status; cbn in *; split; congruence.
Qed.

(* ------------------------------------------------------------------ *)
(** * Transparency (C09) *)

Definition no_exit (a : action) : Prop := match a with ExitProgram => False | _ => True end.

Lemma wait_loop_readonly env script : forall d st n, Forall readonly_cmd script ->
  match wait_loop env script d st n with
  | NaAction a _ st' rest _ => st' = st /\ Forall readonly_cmd rest /\ no_exit a
  | NaStop _ _ _ _ => False
  end.
Proof.
  induction script as [|c rest IH]; intros d st n H; cbn [wait_loop].
  - repeat split; constructor.
  - inversion H as [|? ? Hc Hrest]; subst.
    pose proof (run_command_readonly env c d st Hc) as K.
    destruct (run_command env c d st) as [a d1 st1|d1 st1|r d1]; [| |contradiction].
    + destruct K as [-> ->]. repeat split; assumption.
    + subst st1. destruct (dispatch_status d1 st) as [[a|] d2] eqn:E.
      * repeat split; [assumption|].
        unfold dispatch_status in E. repeat break_match_hyp E; inversion E; exact I.
      * apply IH. assumption.
Qed.

Lemma next_action_readonly env script d st : Forall readonly_cmd script ->
  match next_action env script d st with
  | NaAction a _ st' rest _ => st' = st /\ Forall readonly_cmd rest /\ no_exit a
  | NaStop _ _ _ _ => False
  end.
Proof.
  intros H. unfold next_action.
  match goal with |- context [dispatch_status ?dd st] => destruct (dispatch_status dd st) as [[a|] d3] eqn:E end.
  - repeat split; [assumption|].
    unfold dispatch_status in E. repeat break_match_hyp E; inversion E; exact I.
  - apply wait_loop_readonly. assumption.
Qed.

(** One step of the plain machine: fetch at PC, increment, execute. *)
Definition vm_step (feat : bool) (st : state) : result :=
  execute feat (M st (s_pc st)) (set_pc st (s_pc st + 1)).

Definition runnable (st : state) : Prop :=
  (s_pc st <? s_orig st) || (65024 <=? s_pc st) = false.

Lemma runnable_facts st : runnable st -> s_pc st =? 65535 = false /\ check_pc_bounds st = Equal /\ (W <=? s_pc st + 1) = false.
Proof.
  unfold runnable, check_pc_bounds, USER_MEMORY_END. intros H. apply orb_false_iff in H. destruct H as [H1 H2].
  rewrite H1, H2. apply N.leb_gt in H2.
  split; [apply N.eqb_neq; lia|]. split; [reflexivity|]. apply N.leb_gt. unfold W. lia.
Qed.

(** With a read-only script an iteration either leaves the machine alone or performs exactly one
    step of the plain machine. *)
Lemma tick_readonly env script d st : Forall readonly_cmd script ->
  match tick env script d st with
  | TStop kind code st' _ e _ =>
      runnable st /\ e = 1 /\
      match vm_step (e_feat env) st with
      | Exited c s => kind = 1 /\ code = c /\ st' = s
      | Panicked s => kind = 2 /\ st' = s
      | Diverged => kind = 3
      | Running _ => False
      end
  | TDetach _ st' _ => st' = st
  | TNext rest _ st' e _ =>
      Forall readonly_cmd rest /\
      ((e = 0 /\ st' = st) \/ (e = 1 /\ runnable st /\ vm_step (e_feat env) st = Running st'))
  end.
Proof.
  intros H. unfold tick. pose proof (next_action_readonly env script d st H) as K.
  destruct (next_action env script d st) as [a d1 st1 rest n|]; [|contradiction].
  destruct K as (-> & Hrest & Hne). destruct a; [| |contradiction]; [|reflexivity].
  destruct (at_halt st); [split; [assumption|left; auto]|].
  destruct ((s_pc st <? s_orig st) || (65024 <=? s_pc st)) eqn:Eb; [split; [assumption|left; auto]|].
  pose proof (runnable_facts st Eb) as (_ & _ & Hw). rewrite Hw.
  unfold vm_step.
  destruct (execute (e_feat env) (M st (s_pc st)) (set_pc st (s_pc st + 1))) as [st2|c st2|st2|];
    repeat split; auto.
Qed.

Lemma vm_run_fst feat k : forall st tr, fst (vm_run feat k st tr) = fst (vm_run feat k st []).
Proof.
  induction k as [|k IH]; intros st tr; cbn [vm_run].
  - destruct (s_pc st =? HALT_ADDRESS); [reflexivity|]. destruct (check_pc_bounds st); reflexivity.
  - destruct (s_pc st =? HALT_ADDRESS); [reflexivity|]. destruct (check_pc_bounds st); try reflexivity.
    destruct (W <=? s_pc st + 1); [reflexivity|].
    destruct (execute feat (M st (s_pc st)) (set_pc st (s_pc st + 1))); try reflexivity.
    rewrite IH. symmetry. apply IH.
Qed.

Lemma vm_run_step feat k st : runnable st ->
  fst (vm_run feat (S k) st []) =
  match vm_step feat st with
  | Running st' => fst (vm_run feat k st' [])
  | Exited c s => VExit c s
  | Panicked s => VPanic s
  | Diverged => VHung
  end.
Proof.
  intros H. destruct (runnable_facts st H) as (H1 & H2 & H3).
  cbn [vm_run]. unfold HALT_ADDRESS. rewrite H1, H2, H3. unfold vm_step.
  destruct (execute feat (M st (s_pc st)) (set_pc st (s_pc st + 1))); try reflexivity.
  apply vm_run_fst.
Qed.

(** The session's observable end agrees with a plain run's: same stop, same exit status, same
    final machine (registers, PC, CC, memory, program output, remaining input). *)
Definition same_end (r : session_result) (v : vm_result) : Prop :=
  match v with
  | VFinished s => sr_kind r = 0 /\ sr_state r = s
  | VExit c s => sr_kind r = 1 /\ sr_code r = c /\ sr_state r = s
  | VPanic s => sr_kind r = 2 /\ sr_state r = s
  | VHung => sr_kind r = 3
  | VOutOfFuel _ => False
  end.

Lemma of_vm_same_end v st0 err t e c : sr_kind (of_vm v st0 err t e c) <> 4 -> same_end (of_vm v st0 err t e c) (fst v).
Proof.
  unfold of_vm. destruct (fst v); cbn; intros H; auto; congruence.
Qed.

Theorem session_transparent env fuel : forall script d st t e c,
  Forall readonly_cmd script ->
  sr_kind (session env fuel script d st t e c) <> 4 ->
  exists k, same_end (session env fuel script d st t e c) (fst (vm_run (e_feat env) k st [])).
Proof.
  induction fuel as [|fuel IH]; intros script d st t e c Hro Hk; cbn [session] in *; [cbn in Hk; congruence|].
  pose proof (tick_readonly env script d st Hro) as K.
  destruct (tick env script d st) as [kind code st' d1 e' n|d1 st1 n|rest d1 st1 e' n].
  - destruct K as (Hrun & -> & K). exists 1%nat. rewrite vm_run_step by exact Hrun.
    destruct (vm_step (e_feat env) st); try contradiction; cbn; intuition.
  - subst st1. exists fuel. apply of_vm_same_end. exact Hk.
  - destruct K as (Hrest & [[-> ->]|(-> & Hrun & Hstep)]).
    + apply IH; assumption.
    + destruct (IH rest d1 st1 (t + 1) (e + 1) (c + n) Hrest Hk) as [k Hk']. exists (S k).
      rewrite vm_run_step by exact Hrun. rewrite Hstep. exact Hk'.
Qed.

(* ------------------------------------------------------------------ *)
(** * Progress (C16) *)

Lemma dispatch_none_wait d st d2 : dispatch_status d st = (None, d2) -> d_status d2 = WaitForAction.
Proof.
  unfold dispatch_status. intros H. destruct (d_status d) eqn:Es; repeat break_match_hyp H; inversion H; subst;
    try reflexivity; exact Es.
Qed.

Lemma cmd_cost_le c : cmd_cost c <= 1.
Proof. destruct c; cbn; lia. Qed.

(** Rejected lines are free, but a call of the command reader that was entered (status WaitForAction)
    ends with a command, or the end of the input, being counted. *)
Lemma wait_loop_reads env script : forall d st n,
  d_status d = WaitForAction ->
  match wait_loop env script d st n with
  | NaAction _ _ _ _ n' | NaStop _ _ _ n' => n + 1 <= n'
  end.
Proof.
  induction script as [|c rest IH]; intros d st n Hs; cbn [wait_loop]; [lia|].
  destruct (N.eq_dec (cmd_cost c) 1) as [Hc|Hc].
  - rewrite Hc.
    destruct (run_command env c d st) as [a d1 st1|d1 st1|r d1]; try lia.
    destruct (dispatch_status d1 st1) as [[a|] d2] eqn:E; [lia|].
    specialize (IH d2 st1 (n + 1) (dispatch_none_wait _ _ _ E)). destruct (wait_loop env rest d2 st1 (n + 1)); lia.
  - assert (c = CBad) by (destruct c; cbn in Hc; congruence). subst c.
    cbn [run_command cmd_cost]. unfold dispatch_status. cbn [say set_icount d_status]. rewrite Hs.
    rewrite N.add_0_r. apply IH. cbn [say set_icount d_status]. exact Hs.
Qed.

(** An iteration that neither executes an instruction nor reads a command does not exist. *)
Lemma tick_progress env script d st :
  match tick env script d st with
  | TNext _ _ _ e n => 1 <= e + n
  | TDetach _ _ n => 1 <= n
  | TStop _ _ _ _ _ _ => True
  end.
Proof.
  unfold tick, next_action.
  set (d1 := if (s_pc st <? s_orig st) || (65024 <=? s_pc st) then _ else d).
  destruct (dispatch_status (check_interrupts d1 st) st) as [[a|] d3] eqn:E.
  - (* resumed without reading a command: then PC is in bounds and not on HALT *)
    assert (Ha : a = Proceed).
    { unfold dispatch_status in E. repeat break_match_hyp E; inversion E; reflexivity. }
    subst a.
    assert (Hst : d_status (check_interrupts d1 st) <> WaitForAction).
    { intros Hs. unfold dispatch_status in E. rewrite Hs in E. discriminate. }
    assert (Hhalt : at_halt st = false).
    { destruct (at_halt st) eqn:Eh; [|reflexivity]. exfalso. apply Hst.
      unfold check_interrupts. rewrite Eh. destruct (bp_get _ _); reflexivity. }
    assert (Hb : (s_pc st <? s_orig st) || (65024 <=? s_pc st) = false).
    { destruct ((s_pc st <? s_orig st) || (65024 <=? s_pc st)) eqn:Eb; [|reflexivity]. exfalso. apply Hst.
      unfold check_interrupts, d1. destruct (bp_get _ _); [reflexivity|].
      destruct (at_halt st); reflexivity. }
    rewrite Hhalt, Hb.
    destruct (W <=? s_pc st + 1); [exact I|].
    destruct (execute _ _ _); try exact I. lia.
  - pose proof (wait_loop_reads env script d3 st 0 (dispatch_none_wait _ _ _ E)) as K.
    destruct (wait_loop env script d3 st 0) as [a d4 st4 rest n|r d4 rest n].
    + destruct a; try exact I; try lia.
      repeat break_match; try exact I; lia.
    + destruct r; exact I.
Qed.

(** The work of a session — iterations of the run loop — is bounded by the instructions it executes
    plus the commands it reads, plus one. *)
Theorem session_progress env fuel : forall script d st t e c,
  let r := session env fuel script d st t e c in
  sr_ticks r + e + c <= t + sr_execs r + sr_cmds r + 1.
Proof.
  induction fuel as [|fuel IH]; intros script d st t e c; cbn [session]; [cbn; lia|].
  pose proof (tick_progress env script d st) as K.
  destruct (tick env script d st) as [kind code st' d1 e' n|d1 st1 n|rest d1 st1 e' n].
  - cbn. lia.
  - unfold of_vm. destruct (fst (vm_run (e_feat env) fuel st1 [])); cbn; lia.
  - cbn zeta in IH. specialize (IH rest d1 st1 (t + 1) (e + e') (c + n)). lia.
Qed.

(** Commands read never exceed the script's length plus one (the end of input). *)
Lemma wait_loop_script env script : forall d st n,
  match wait_loop env script d st n with
  | NaAction _ _ _ rest n' | NaStop _ _ rest n' => n' + N.of_nat (length rest) <= n + N.of_nat (length script) + 1
  end.
Proof.
  induction script as [|c rest IH]; intros d st n; cbn [wait_loop length]; [lia|].
  pose proof (cmd_cost_le c) as Hc.
  destruct (run_command env c d st) as [a d1 st1|d1 st1|r d1]; try lia.
  destruct (dispatch_status d1 st1) as [[a|] d2]; [lia|].
  specialize (IH d2 st1 (n + cmd_cost c)). destruct (wait_loop env rest d2 st1 (n + cmd_cost c)); lia.
Qed.

(* ------------------------------------------------------------------ *)
(** * Breakpoints (C11) *)

Definition bp_sorted (l : list (N * bool)) : Prop := StronglySorted N.lt (List.map fst l).

Lemma bp_insert_sorted l b : bp_sorted l -> bp_sorted (bp_insert l b).
Proof.
  unfold bp_sorted. induction l as [|o r IH]; intros H; cbn [bp_insert List.map].
  - repeat constructor.
  - inversion H as [|? ? Hs Hall]; subst.
    destruct (N.eqb_spec (fst o) (fst b)); [exact H|].
    destruct (N.leb_spec (fst b) (fst o)).
    + cbn [List.map]. constructor; [exact H|]. constructor; [lia|].
      eapply Forall_impl; [|exact Hall]. cbn. intros. lia.
    + cbn [List.map]. constructor; [apply IH; exact Hs|].
      clear IH H Hs. induction r as [|x r IHr]; cbn [bp_insert List.map].
      * constructor; [lia|constructor].
      * inversion Hall; subst.
        destruct (fst x =? fst b); [constructor; assumption|].
        destruct (fst b <=? fst x); cbn [List.map].
        -- constructor; [lia|constructor; assumption].
        -- constructor; [assumption|apply IHr; assumption].
Qed.

Lemma bp_remove_sorted l a : bp_sorted l -> bp_sorted (bp_remove l a).
Proof.
  unfold bp_sorted, bp_remove. induction l as [|o r IH]; intros H; cbn [filter List.map]; [constructor|].
  inversion H as [|? ? Hs Hall]; subst.
  destruct (negb (fst o =? a)); cbn [List.map]; [|apply IH; exact Hs].
  constructor; [apply IH; exact Hs|].
  clear IH H Hs. induction r as [|x r IHr]; cbn [filter List.map]; [constructor|].
  inversion Hall; subst. destruct (negb (fst x =? a)); cbn [List.map]; [constructor; [assumption|]|]; apply IHr; assumption.
Qed.

Lemma with_orig_sorted l orig : bp_sorted l -> bp_sorted (with_orig l orig).
Proof.
  unfold bp_sorted, with_orig. induction l as [|o r IH]; intros H; cbn [List.map]; [constructor|].
  inversion H as [|? ? Hs Hall]; subst. constructor; [apply IH; exact Hs|].
  clear IH H Hs. induction r as [|x r IHr]; cbn [List.map]; [constructor|].
  inversion Hall; subst. constructor; [cbn; lia|apply IHr; assumption].
Qed.

Lemma bp_get_insert l a f : bp_get (bp_insert l (a, f)) a <> None.
Proof.
  induction l as [|o r IH]; cbn [bp_insert bp_get fst].
  - rewrite N.eqb_refl. discriminate.
  - destruct (N.eqb_spec (fst o) a) as [E|E].
    + cbn [bp_get]. rewrite (proj2 (N.eqb_eq _ _) E). discriminate.
    + destruct (a <=? fst o); cbn [bp_get fst].
      * rewrite N.eqb_refl. discriminate.
      * rewrite (proj2 (N.eqb_neq _ _) E). exact IH.
Qed.

Lemma bp_get_remove l a : bp_get (bp_remove l a) a = None.
Proof.
  unfold bp_remove. induction l as [|o r IH]; cbn [filter bp_get]; [reflexivity|].
  destruct (N.eqb_spec (fst o) a) as [E|E]; cbn [negb]; [exact IH|].
  cbn [bp_get]. rewrite (proj2 (N.eqb_neq _ _) E). exact IH.
Qed.

Lemma bp_get_remove_other l a b : a <> b -> bp_get (bp_remove l a) b = bp_get l b.
Proof.
  intros Hne. unfold bp_remove. induction l as [|o r IH]; cbn [filter bp_get]; [reflexivity|].
  destruct (N.eqb_spec (fst o) a) as [E|E]; cbn [negb bp_get].
  - rewrite IH. destruct (N.eqb_spec (fst o) b); [congruence|reflexivity].
  - rewrite IH. reflexivity.
Qed.

(** Every command keeps the breakpoint list sorted and duplicate-free. *)
Lemma run_command_sorted env c d st : bp_sorted (d_bps d) -> bp_sorted (d_bps (cmd_dbg (run_command env c d st))).
Proof.
  intros H. unfold run_command.
  destruct c as [ | | | | | |l|l v|m|m| | | | | | |m|m| ]; cbn [cmd_dbg];
    repeat break_match; cbn [cmd_dbg];
    repeat match goal with
    | H : resolve_location _ _ _ _ = _ |- _ => apply resolve_location_init in H; destruct H as (?&?&?)
    | H : expect_userspace _ _ _ = _ |- _ => apply expect_userspace_init in H; destruct H as (?&?&?)
    end; cbn in *; rewrite ?say_lines_bps; cbn in *;
    try (apply bp_insert_sorted); try (apply bp_remove_sorted); congruence.
Qed.

(** A breakpoint at the PC always pauses before the instruction executes: the debugger waits for a
    command (any pending continue/step is cancelled) — on every arrival. *)
Theorem breakpoint_fires d st :
  bp_get (d_bps d) (s_pc st) <> None -> d_status (check_interrupts d st) = WaitForAction.
Proof. intros H. unfold check_interrupts. destruct (bp_get (d_bps d) (s_pc st)); [reflexivity|congruence]. Qed.

(** ... and then nothing executes before a command is read. *)
Theorem breakpoint_pauses env script d st :
  bp_get (d_bps d) (s_pc st) <> None ->
  exists d', d_status d' = WaitForAction /\ next_action env script d st = wait_loop env script d' st 0.
Proof.
  intros H. unfold next_action.
  set (d1 := if (s_pc st <? s_orig st) || (65024 <=? s_pc st) then _ else d).
  assert (Hb : bp_get (d_bps d1) (s_pc st) <> None) by (unfold d1; destruct (_ || _); exact H).
  pose proof (breakpoint_fires d1 st Hb) as Hs.
  unfold dispatch_status. rewrite Hs. eexists. split; [exact Hs|reflexivity].
Qed.

(** Without a breakpoint, a HALT or an out-of-bounds PC, [check_interrupts] changes nothing. *)
Lemma no_interrupt d st : bp_get (d_bps d) (s_pc st) = None -> at_halt st = false -> check_interrupts d st = d.
Proof. intros H1 H2. unfold check_interrupts. rewrite H1, H2. reflexivity. Qed.

(* ------------------------------------------------------------------ *)
(** * Stepping (C10) *)

(** No reason to pause at this state: no breakpoint at PC, not on HALT, PC in user space. *)
Definition free (d : dbg) (st : state) : Prop :=
  bp_get (d_bps d) (s_pc st) = None /\ at_halt st = false /\ runnable st.

Lemma next_action_free env script d st : free d st ->
  next_action env script d st =
  match dispatch_status d st with
  | (Some a, d3) => NaAction a d3 st script 0
  | (None, d3) => wait_loop env script d3 st 0
  end.
Proof.
  intros (Hb & Hh & Hr). unfold next_action. unfold runnable in Hr. rewrite Hr.
  rewrite no_interrupt by assumption. reflexivity.
Qed.

(** A pause condition cancels whatever was pending: a command is read before anything executes. *)
Lemma pause_forces_wait env script d st :
  bp_get (d_bps d) (s_pc st) <> None \/ at_halt st = true \/ (s_pc st <? s_orig st) || (65024 <=? s_pc st) = true ->
  exists d', d_status d' = WaitForAction /\ d_bps d' = d_bps d /\
             next_action env script d st = wait_loop env script d' st 0.
Proof.
  intros H. unfold next_action.
  set (d1 := if (s_pc st <? s_orig st) || (65024 <=? s_pc st) then _ else d).
  assert (Hbps : d_bps d1 = d_bps d) by (unfold d1; destruct (_ || _); reflexivity).
  assert (Hs : d_status (check_interrupts d1 st) = WaitForAction).
  { unfold check_interrupts. destruct (bp_get (d_bps d1) (s_pc st)) eqn:Eb; [reflexivity|].
    destruct (at_halt st) eqn:Eh; [reflexivity|].
    destruct H as [H|[H|H]]; [rewrite Hbps in Eb; congruence|congruence|].
    unfold d1. rewrite H. reflexivity. }
  unfold dispatch_status. rewrite Hs. eexists. split; [exact Hs|]. split; [|reflexivity].
  unfold check_interrupts. repeat break_match; cbn; exact Hbps.
Qed.

(** One iteration at a free state executes exactly one instruction of the plain machine, reads no
    command, and moves the status machine as each command promises. *)
Definition after_exec (env : dbg_env) (script : list cmd) (d' : dbg) (st : state) (r : tick_result) : Prop :=
  match vm_step (e_feat env) st with
  | Running st' => r = TNext script (set_icount d' (d_icount d' + 1)) st' 1 0
  | Exited c s => r = TStop 1 c s (set_icount d' (d_icount d' + 1)) 1 0
  | Panicked s => r = TStop 2 0 s (set_icount d' (d_icount d' + 1)) 1 0
  | Diverged => r = TStop 3 0 st (set_icount d' (d_icount d' + 1)) 1 0
  end.

Lemma tick_proceed env script d d' st :
  free d st -> dispatch_status d st = (Some Proceed, d') -> after_exec env script d' st (tick env script d st).
Proof.
  intros Hf Hd. unfold tick. rewrite next_action_free by exact Hf. rewrite Hd.
  destruct Hf as (Hb & Hh & Hr). rewrite Hh. unfold runnable in Hr. rewrite Hr.
  destruct (runnable_facts st Hr) as (_ & _ & Hw). rewrite Hw.
  unfold after_exec, vm_step. destruct (execute _ _ _); reflexivity.
Qed.

Theorem tick_step_into env script d st c :
  free d st -> d_status d = StepIntoS c ->
  after_exec env script (set_status d (if 0 <? c then StepIntoS (c - 1) else WaitForAction)) st
             (tick env script d st).
Proof.
  intros Hf Hs. apply tick_proceed; [exact Hf|]. unfold dispatch_status. rewrite Hs.
  destruct (0 <? c); reflexivity.
Qed.

Theorem tick_continue env script d st :
  free d st -> d_status d = ContinueS -> after_exec env script d st (tick env script d st).
Proof. intros Hf Hs. apply tick_proceed; [exact Hf|]. unfold dispatch_status. rewrite Hs. reflexivity. Qed.

Theorem tick_finish env script d st :
  free d st -> d_status d = FinishS ->
  after_exec env script
    (if is_sig (significant (M st (s_pc st))) SigReturn
     then set_status (say d L_REACHED_SUBEND) WaitForAction else d) st
    (tick env script d st).
Proof.
  intros Hf Hs. apply tick_proceed; [exact Hf|]. unfold dispatch_status. rewrite Hs.
  destruct (is_sig _ SigReturn); reflexivity.
Qed.

Theorem tick_step_over env script d st ra :
  free d st -> d_status d = StepOverS ra -> s_pc st <> ra ->
  after_exec env script d st (tick env script d st).
Proof.
  intros Hf Hs Hne. apply tick_proceed; [exact Hf|]. unfold dispatch_status. rewrite Hs.
  destruct (N.eqb_spec (s_pc st) ra); [contradiction|reflexivity].
Qed.

Theorem step_over_returns env script d st ra :
  free d st -> d_status d = StepOverS ra -> s_pc st = ra ->
  exists d', d_status d' = WaitForAction /\ next_action env script d st = wait_loop env script d' st 0.
Proof.
  intros Hf Hs He. rewrite next_action_free by exact Hf. unfold dispatch_status. rewrite Hs.
  rewrite (proj2 (N.eqb_eq _ _) He). eexists. split; [|reflexivity]. reflexivity.
Qed.

(** What each resuming command arms (when not parked on HALT). *)
Theorem resume_commands env d st : at_halt st = false ->
  (forall n, run_command env (CStepInto n) d st = CmdNone (set_status (set_icount d 0) (StepIntoS (n - 1))) st) /\
  run_command env CContinue d st = CmdNone (set_status (set_icount d 0) ContinueS) st /\
  run_command env CStepOver d st =
    CmdNone (set_status (set_icount d 0)
               (if is_sig (significant (M st (s_pc st))) SigCall
                then StepOverS (wrapping_add (s_pc st) 1) else StepIntoS 0)) st /\
  (e_feat env = true -> run_command env CStepOut d st = CmdNone (set_status (set_icount d 0) FinishS) st).
Proof.
  intros Hh. unfold run_command. rewrite Hh. repeat split.
  - destruct (is_sig _ SigCall); reflexivity.
  - intros ->. reflexivity.
Qed.

(** ... and on HALT they are refused: nothing changes but a message. *)
Theorem resume_refused_on_halt env d st c : at_halt st = true ->
  match c with CStepInto _ | CContinue | CStepOver => True | _ => False end ->
  run_command env c d st = CmdNone (say (set_icount d 0) L_REACHED_HALT) st.
Proof. intros Hh Hc. destruct c; try contradiction; unfold run_command; rewrite Hh; reflexivity. Qed.

(** Iterating free single steps: [k] instructions of the plain machine. *)
Fixpoint steps (feat : bool) (k : nat) (st : state) : option state :=
  match k with
  | O => Some st
  | S k' => match vm_step feat st with Running st' => steps feat k' st' | _ => None end
  end.

Fixpoint free_path (feat : bool) (bps : list (N * bool)) (k : nat) (st : state) : Prop :=
  match k with
  | O => True
  | S k' => bp_get bps (s_pc st) = None /\ at_halt st = false /\ runnable st /\
            match vm_step feat st with Running st' => free_path feat bps k' st' | _ => False end
  end.

Fixpoint iter_tick (env : dbg_env) (k : nat) (script : list cmd) (d : dbg) (st : state)
  : option (dbg * state) :=
  match k with
  | O => Some (d, st)
  | S k' => match tick env script d st with
            | TNext rest d1 st1 1 0 => if Nat.eqb (length rest) (length script) then iter_tick env k' script d1 st1 else None
            | _ => None
            end
  end.

Lemma iter_tick_S env k script d st :
  iter_tick env (S k) script d st =
  match tick env script d st with
  | TNext rest d1 st1 1 0 => if Nat.eqb (length rest) (length script) then iter_tick env k script d1 st1 else None
  | _ => None
  end.
Proof. reflexivity. Qed.

Lemma steps_S feat k st :
  steps feat (S k) st = match vm_step feat st with Running st' => steps feat k st' | _ => None end.
Proof. reflexivity. Qed.

(** `step into N` (count N-1 armed) executes exactly N instructions when nothing pauses it earlier,
    reading no command meanwhile, and then waits. *)
Theorem step_into_exact env script : forall c d st,
  d_status d = StepIntoS (N.of_nat c) ->
  free_path (e_feat env) (d_bps d) (S c) st ->
  exists d' st', iter_tick env (S c) script d st = Some (d', st') /\
                 steps (e_feat env) (S c) st = Some st' /\ d_status d' = WaitForAction /\ d_bps d' = d_bps d.
Proof.
  induction c as [|c IH]; intros d st Hs Hp.
  - destruct Hp as (Hb & Hh & Hr & Hp). pose proof (tick_step_into env script d st 0 (conj Hb (conj Hh Hr)) Hs) as K.
    unfold after_exec in K. rewrite iter_tick_S, steps_S.
    destruct (vm_step (e_feat env) st) as [st1| | |]; try contradiction. rewrite K. rewrite Nat.eqb_refl.
    eexists; eexists; split; [reflexivity|]. split; [reflexivity|]. split; reflexivity.
  - destruct Hp as (Hb & Hh & Hr & Hp).
    pose proof (tick_step_into env script d st (N.of_nat (S c)) (conj Hb (conj Hh Hr)) Hs) as K.
    unfold after_exec in K. rewrite iter_tick_S, steps_S.
    destruct (vm_step (e_feat env) st) as [st1| | |]; try contradiction. rewrite K. rewrite Nat.eqb_refl.
    assert (Hpos : (0 <? N.of_nat (S c)) = true) by (apply N.ltb_lt; lia). rewrite Hpos.
    replace (N.of_nat (S c) - 1) with (N.of_nat c) by lia.
    match goal with |- context [iter_tick env (S c) script ?dd st1] =>
      destruct (IH dd st1 eq_refl Hp) as (d' & st' & H1 & H2 & H3 & H4) end.
    exists d', st'. repeat split; assumption.
Qed.

(** `continue` keeps executing the plain machine, one instruction per iteration, as long as no
    pause condition holds. *)
Theorem continue_runs env script : forall k d st,
  d_status d = ContinueS -> free_path (e_feat env) (d_bps d) k st ->
  exists d' st', iter_tick env k script d st = Some (d', st') /\ steps (e_feat env) k st = Some st' /\
                 d_status d' = ContinueS /\ d_bps d' = d_bps d.
Proof.
  induction k as [|k IH]; intros d st Hs Hp.
  - eexists; eexists; repeat split; eauto.
  - destruct Hp as (Hb & Hh & Hr & Hp).
    pose proof (tick_continue env script d st (conj Hb (conj Hh Hr)) Hs) as K.
    unfold after_exec in K. rewrite iter_tick_S, steps_S.
    destruct (vm_step (e_feat env) st) as [st1| | |]; try contradiction. rewrite K. rewrite Nat.eqb_refl.
    match goal with |- context [iter_tick env k script ?dd st1] =>
      destruct (IH dd st1 Hs Hp) as (d' & st' & H1 & H2 & H3 & H4) end.
    exists d', st'. repeat split; assumption.
Qed.

(** The iteration in which a resuming command is read: from a waiting debugger at a runnable state
    that is not on HALT, the command is read, its status is armed and dispatched, and the
    instruction at PC executes in the same iteration — breakpoint at PC or not ("resuming executes
    the marked instruction once"). *)
Lemma check_interrupts_wait d st : d_status d = WaitForAction -> d_status (check_interrupts d st) = WaitForAction.
Proof. intros H. unfold check_interrupts. repeat break_match; cbn; auto. Qed.

Definition after_exec1 (env : dbg_env) (script : list cmd) (d' : dbg) (st : state) (r : tick_result) : Prop :=
  match vm_step (e_feat env) st with
  | Running st' => r = TNext script (set_icount d' (d_icount d' + 1)) st' 1 1
  | Exited c s => r = TStop 1 c s (set_icount d' (d_icount d' + 1)) 1 1
  | Panicked s => r = TStop 2 0 s (set_icount d' (d_icount d' + 1)) 1 1
  | Diverged => r = TStop 3 0 st (set_icount d' (d_icount d' + 1)) 1 1
  end.

Theorem tick_resume env c rest d st d1 d2 :
  d_status d = WaitForAction -> at_halt st = false -> runnable st ->
  run_command env c (check_interrupts d st) st = CmdNone d1 st ->
  dispatch_status d1 st = (Some Proceed, d2) ->
  after_exec1 env rest d2 st (tick env (c :: rest) d st).
Proof.
  intros Hs Hh Hr Hc Hd. unfold tick, next_action. unfold runnable in Hr. rewrite Hr. cbv beta iota zeta.
  assert (Hs0 : d_status (check_interrupts d st) = WaitForAction) by (apply check_interrupts_wait; exact Hs).
  assert (Hcost : cmd_cost c = 1).
  { destruct c; try reflexivity. exfalso. cbn [run_command] in Hc. inversion Hc; subst d1.
    unfold dispatch_status in Hd. cbn [say set_icount d_status] in Hd. rewrite Hs0 in Hd. discriminate. }
  unfold dispatch_status at 1. rewrite Hs0. cbn [wait_loop]. rewrite Hc, Hd, Hcost.
  rewrite Hh, Hr. destruct (runnable_facts st Hr) as (_ & _ & Hw). rewrite Hw.
  unfold after_exec1, vm_step. destruct (execute _ _ _); reflexivity.
Qed.
