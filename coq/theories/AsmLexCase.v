(* AsmLexCase.v — letter case never matters outside label names and string literals: two words that
   agree character by character up to ASCII letter case lex to the same kind of token (the same
   keyword, register, directive, the same VALUE for a literal with hexadecimal digits in either
   case), and an identifier that is a label stays a label.  With AsmLex.relayout: changing the case
   of any keyword, register name, directive or hexadecimal digit never changes the image. *)
From Coq Require Import List NArith Bool Lia String.
From Lace Require Import Word Machine Isa Vm Asm AsmTotal AsmLayout AsmLex.
Import ListNotations.
Open Scope N_scope.

Definition lc (c c' : N) : Prop := to_lower c = to_lower c'.

Lemma lc_cases c c' : lc c c' ->
  c = c' \/ (between 65 c 90 = true /\ c' = c + 32) \/ (between 65 c' 90 = true /\ c = c' + 32).
Proof.
  unfold lc, to_lower. destruct (between 65 c 90) eqn:E1, (between 65 c' 90) eqn:E2; intros H.
  - left. lia.
  - right. left. split; [reflexivity|lia].
  - right. right. split; [reflexivity|lia].
  - left. exact H.
Qed.

Lemma upper_enum c : between 65 c 90 = true ->
  In c [65;66;67;68;69;70;71;72;73;74;75;76;77;78;79;80;81;82;83;84;85;86;87;88;89;90].
Proof.
  unfold between. intros H. apply andb_true_iff in H as [H1 H2]. apply N.leb_le in H1, H2.
  assert (K : exists k, (k < 26)%nat /\ c = 65 + N.of_nat k).
  { exists (N.to_nat (c - 65)). split; [lia|]. rewrite Nnat.N2Nat.id. lia. }
  destruct K as (k & Hk & ->).
  do 26 (destruct k as [|k]; [cbn; tauto|]). lia.
Qed.

(** A function of a character that does not see the case of a letter. *)
Definition case_blind {A} (f : N -> A) : Prop := forall c c', lc c c' -> f c = f c'.

Lemma case_blind_of_upper {A} (f : N -> A) :
  (forall c, In c [65;66;67;68;69;70;71;72;73;74;75;76;77;78;79;80;81;82;83;84;85;86;87;88;89;90] -> f c = f (c + 32)) ->
  case_blind f.
Proof.
  intros H c c' L. destruct (lc_cases c c' L) as [->|[[U ->]|[U ->]]]; [reflexivity| |].
  - apply H. apply upper_enum. exact U.
  - symmetry. apply H. apply upper_enum. exact U.
Qed.

Ltac blind := apply case_blind_of_upper; intros c Hc; cbn [In] in Hc;
  repeat (destruct Hc as [<-|Hc]; [vm_compute; reflexivity|]); contradiction.

Lemma blind_semicolon : case_blind (fun c => c =? 59). Proof. blind. Qed.
Lemma blind_ws : case_blind is_whitespace. Proof. blind. Qed.
Lemma blind_te : case_blind is_token_end. Proof. blind. Qed.
Lemma blind_nte : case_blind (fun c => negb (is_token_end c)). Proof. blind. Qed.
Lemma blind_x : case_blind (fun c => (c =? 120) || (c =? 88)). Proof. blind. Qed.
Lemma blind_0 : case_blind (fun c => c =? 48). Proof. blind. Qed.
Lemma blind_r : case_blind (fun c => (c =? 114) || (c =? 82)). Proof. blind. Qed.
Lemma blind_id : case_blind is_id. Proof. blind. Qed.
Lemma blind_hash : case_blind (fun c => c =? 35). Proof. blind. Qed.
Lemma blind_dot : case_blind (fun c => c =? 46). Proof. blind. Qed.
Lemma blind_quote : case_blind (fun c => c =? 34). Proof. blind. Qed.
Lemma blind_regnum : case_blind is_reg_num. Proof. blind. Qed.
Lemma blind_next : case_blind (fun n => is_token_end n || (n =? 0)). Proof. blind. Qed.
Lemma blind_plus : case_blind (fun c => c =? 43). Proof. blind. Qed.
Lemma blind_minus : case_blind (fun c => c =? 45). Proof. blind. Qed.
Lemma blind_pm : case_blind (fun c => (c =? 43) || (c =? 45)). Proof. blind. Qed.
Lemma blind_digit radix : case_blind (to_digit radix).
Proof.
  apply case_blind_of_upper. intros c Hc. cbn [In] in Hc. unfold to_digit.
  repeat (destruct Hc as [<-|Hc]; [reflexivity|]). contradiction.
Qed.
Lemma blind_lower : case_blind to_lower. Proof. intros c c' H. exact H. Qed.
Lemma blind_nl : case_blind (fun x => negb (x =? 10)). Proof. blind. Qed.

(* ------------------------------------------------------------------ *)
(** * Lists of characters up to letter case *)

Definition lcs := Forall2 lc.

Lemma lcs_length l l' : lcs l l' -> length l = length l'.
Proof. induction 1; cbn; congruence. Qed.

Lemma lcs_lower l l' : lcs l l' -> List.map to_lower l = List.map to_lower l'.
Proof. induction 1 as [|c c' l l' H _ IH]; cbn; [reflexivity|]. rewrite H, IH. reflexivity. Qed.

Lemma lcs_last : forall l l', lcs l l' -> lc (last l 0) (last l' 0).
Proof.
  induction 1 as [|c c' l l' H H2 IH]; [reflexivity|].
  destruct H2 as [|d d' m m' Hd Hm]; [exact H|]. exact IH.
Qed.

Lemma tw_lcs p : case_blind p -> forall l l', lcs l l' ->
  lcs (fst (take_while p l)) (fst (take_while p l')) /\ lcs (snd (take_while p l)) (snd (take_while p l')).
Proof.
  intros Hp. induction 1 as [|c c' l l' H H2 IH]; cbn [take_while]; [split; constructor|].
  rewrite <- (Hp c c' H). destruct (p c).
  - destruct (take_while p l) as [a b], (take_while p l') as [a' b']. cbn [fst snd] in *.
    destruct IH as [I1 I2]. split; [constructor; assumption|exact I2].
  - cbn [fst snd]. split; [constructor|constructor; assumption].
Qed.

Lemma acc_digits_lcs radix max : forall ds ds', lcs ds ds' -> forall acc,
  acc_digits radix max ds acc = acc_digits radix max ds' acc.
Proof.
  induction 1 as [|c c' l l' H _ IH]; intros acc; cbn [acc_digits]; [reflexivity|].
  rewrite <- (blind_digit radix c c' H). destruct (to_digit radix c); [|reflexivity].
  destruct (max <? acc * radix + n); [reflexivity|apply IH].
Qed.

Lemma parse_u16_lcs radix s s' : lcs s s' -> parse_u16 radix s = parse_u16 radix s'.
Proof.
  intros H. destruct H as [|c c' r r' Hc Hr]; [reflexivity|]. cbn [parse_u16].
  pose proof (acc_digits_lcs radix 65535 (c :: r) (c' :: r') (Forall2_cons _ _ Hc Hr) 0) as A.
  destruct Hr as [|d d' t t' Hd Ht].
  - pose proof (blind_pm c c' Hc) as E. cbn beta in E. rewrite <- E. destruct ((c =? 43) || (c =? 45)); [reflexivity|exact A].
  - pose proof (blind_plus c c' Hc) as E. cbn beta in E. rewrite <- E. destruct (c =? 43); [|exact A].
    apply acc_digits_lcs. constructor; assumption.
Qed.

Lemma parse_i16_lcs radix s s' : lcs s s' -> parse_i16 radix s = parse_i16 radix s'.
Proof.
  intros H. destruct H as [|c c' r r' Hc Hr]; [reflexivity|]. cbn [parse_i16].
  pose proof (acc_digits_lcs radix 32767 (c :: r) (c' :: r') (Forall2_cons _ _ Hc Hr) 0) as A.
  destruct Hr as [|d d' t t' Hd Ht].
  - pose proof (blind_pm c c' Hc) as E. cbn beta in E. rewrite <- E. destruct ((c =? 43) || (c =? 45)); [reflexivity|exact A].
  - pose proof (blind_plus c c' Hc) as E. cbn beta in E. rewrite <- E.
    pose proof (blind_minus c c' Hc) as E2. cbn beta in E2. rewrite <- E2.
    destruct (c =? 43); [apply acc_digits_lcs; constructor; assumption|].
    destruct (c =? 45); [|exact A].
    rewrite (acc_digits_lcs radix 32768 (d :: t) (d' :: t') (Forall2_cons _ _ Hd Ht) 0). reflexivity.
Qed.

(* ------------------------------------------------------------------ *)
(** * The lexer up to letter case *)

Definition lexed_lc (x x' : lexed) : Prop :=
  match x, x' with
  | LexTok k cs rs, LexTok k' cs' rs' => k = k' /\ lcs cs cs' /\ lcs rs rs'
  | LexErr d _ _, LexErr d' _ _ => d = d'
  | _, _ => False
  end.

Lemma lcs_app l l' m m' : lcs l l' -> lcs m m' -> lcs (l ++ m) (l' ++ m').
Proof. intros H1 H2. apply Forall2_app; assumption. Qed.

Lemma ident_lc feat pre pre' rest rest' : lcs pre pre' -> lcs rest rest' ->
  lexed_lc (ident feat pre rest) (ident feat pre' rest').
Proof.
  intros Hp Hr. unfold ident.
  destruct (tw_lcs is_id blind_id rest rest' Hr) as [T1 T2].
  destruct (take_while is_id rest) as [more r1], (take_while is_id rest') as [more' r1']. cbn [fst snd] in *.
  assert (E : List.map to_lower (last pre 0 :: more) = List.map to_lower (last pre' 0 :: more')).
  { cbn [List.map]. rewrite (lcs_last _ _ Hp), (lcs_lower _ _ T1). reflexivity. }
  rewrite <- E. destruct (is_stack_word _ && negb feat); [reflexivity|].
  cbn. split; [reflexivity|]. split; [apply lcs_app; assumption|exact T2].
Qed.

Lemma hex_lc pre pre' rest rest' : lcs pre pre' -> lcs rest rest' -> lexed_lc (hex pre rest) (hex pre' rest').
Proof.
  intros Hp Hr. unfold hex.
  destruct (tw_lcs _ blind_nte rest rest' Hr) as [T1 T2].
  destruct (take_while _ rest) as [ds r1], (take_while _ rest') as [ds' r1']. cbn [fst snd] in *.
  rewrite <- (parse_i16_lcs 16 ds ds' T1), <- (parse_u16_lcs 16 ds ds' T1).
  assert (K : lcs (pre ++ ds) (pre' ++ ds')) by (apply lcs_app; assumption).
  destruct (parse_i16 16 ds); [cbn; auto|].
  destruct (parse_u16 16 ds) as [v|[]]; cbn; auto.
Qed.

Lemma dec_lc pre pre' rest rest' : lcs pre pre' -> lcs rest rest' -> lexed_lc (dec pre rest) (dec pre' rest').
Proof.
  intros Hp Hr. unfold dec.
  destruct (tw_lcs _ blind_nte rest rest' Hr) as [T1 T2].
  destruct (take_while _ rest) as [ds r1], (take_while _ rest') as [ds' r1']. cbn [fst snd] in *.
  rewrite <- (parse_i16_lcs 10 ds ds' T1), <- (parse_u16_lcs 10 ds ds' T1).
  assert (K : lcs (pre ++ ds) (pre' ++ ds')) by (apply lcs_app; assumption).
  destruct (parse_i16 10 ds); [cbn; auto|].
  destruct (parse_u16 10 ds); cbn; auto.
Qed.

Lemma dir_lc pre pre' rest rest' : lcs pre pre' -> lcs rest rest' -> lexed_lc (dir pre rest) (dir pre' rest').
Proof.
  intros Hp Hr. unfold dir.
  destruct (tw_lcs is_id blind_id rest rest' Hr) as [T1 T2].
  destruct (take_while is_id rest) as [more r1], (take_while is_id rest') as [more' r1']. cbn [fst snd] in *.
  assert (K : lcs (pre ++ more) (pre' ++ more')) by (apply lcs_app; assumption).
  rewrite <- (lcs_lower _ _ K). destruct (check_directive _); cbn; auto.
Qed.

Lemma regnum_lc d d' : lc d d' -> is_reg_num d = true -> d = d'.
Proof.
  intros L H. unfold is_reg_num, between in H. apply andb_true_iff in H as [H1 H2]. apply N.leb_le in H1, H2.
  destruct (lc_cases d d' L) as [E|[[U E]|[U E]]]; [exact E| |];
    unfold between in U; apply andb_true_iff in U as [U1 U2]; apply N.leb_le in U1, U2; lia.
Qed.

Ltac sync B c c' L := let E := fresh "E" in pose proof (B c c' L) as E; cbn beta in E; rewrite <- E; clear E.

Lemma advance_token_lc feat c c' rest rest' : lc c c' -> lcs rest rest' -> (c =? 34) = false ->
  match advance_token feat (c :: rest), advance_token feat (c' :: rest') with
  | Some x, Some x' => lexed_lc x x'
  | _, _ => False
  end.
Proof.
  intros L Hr H34. cbn [advance_token].
  assert (L1 : lcs [c] [c']) by (constructor; [exact L|constructor]).
  sync blind_semicolon c c' L. destruct (c =? 59).
  { destruct (tw_lcs _ blind_nl rest rest' Hr) as [T1 T2].
    destruct (take_while _ rest) as [a b], (take_while _ rest') as [a' b']. cbn [fst snd] in *.
    cbn. split; [reflexivity|]. split; [constructor; assumption|exact T2]. }
  sync blind_ws c c' L. destruct (is_whitespace c).
  { destruct (tw_lcs _ blind_ws rest rest' Hr) as [T1 T2].
    destruct (take_while _ rest) as [a b], (take_while _ rest') as [a' b']. cbn [fst snd] in *.
    cbn. split; [reflexivity|]. split; [constructor; assumption|exact T2]. }
  sync blind_x c c' L. destruct ((c =? 120) || (c =? 88)); [apply hex_lc; assumption|].
  sync blind_0 c c' L. destruct (c =? 48).
  { destruct Hr as [|x x' r2 r2' Hx Hr2]; [apply ident_lc; [assumption|constructor]|].
    sync blind_x x x' Hx. destruct ((x =? 120) || (x =? 88)).
    - apply hex_lc; [constructor; [exact L|constructor; [exact Hx|constructor]]|exact Hr2].
    - apply ident_lc; [assumption|constructor; assumption]. }
  sync blind_r c c' L. destruct ((c =? 114) || (c =? 82)).
  { destruct Hr as [|d d' r2 r2' Hd Hr2]; [apply ident_lc; [assumption|constructor]|].
    sync blind_regnum d d' Hd. destruct (is_reg_num d) eqn:Ed; [|apply ident_lc; [assumption|constructor; assumption]].
    pose proof (Forall2_cons d d' Hd Hr2) as Hall.
    destruct (tw_lcs _ blind_regnum _ _ Hall) as [T1 T2].
    destruct (take_while is_reg_num (d :: r2)) as [nums r3], (take_while is_reg_num (d' :: r2')) as [nums' r3']. cbn [fst snd] in *.
    rewrite <- (lcs_length _ _ T1).
    assert (Hn : match r3 with [] => true | n :: _ => is_token_end n || (n =? 0) end =
                 match r3' with [] => true | n :: _ => is_token_end n || (n =? 0) end).
    { destruct T2 as [|n n' t t' Hn Ht]; [reflexivity|]. exact (blind_next n n' Hn). }
    rewrite <- Hn.
    destruct ((N.of_nat (length nums) =? 1) && _).
    - cbn. rewrite (regnum_lc d d' Hd Ed). split; [reflexivity|]. split; [constructor; assumption|exact T2].
    - apply ident_lc; [constructor; assumption|exact T2]. }
  sync blind_id c c' L. destruct (is_id c); [apply ident_lc; assumption|].
  sync blind_hash c c' L. destruct (c =? 35); [apply dec_lc; assumption|].
  sync blind_dot c c' L. destruct (c =? 46); [apply dir_lc; assumption|].
  sync blind_quote c c' L. rewrite H34.
  destruct (take_while _ rest), (take_while _ rest'). reflexivity.
Qed.

(** Words that agree up to letter case are the same kind of token. *)
Theorem lex_word_case feat w w' k : lcs w w' -> lex_word feat w = Some k -> k <> KLit LStr ->
  lex_word feat w' = Some k.
Proof.
  intros H Hk Hs. destruct H as [|c c' r r' Hc Hr]; [discriminate Hk|].
  assert (H34 : (c =? 34) = false).
  { destruct (c =? 34) eqn:E; [|reflexivity]. exfalso. apply N.eqb_eq in E. subst c.
    apply lex_word_consumed in Hk. cbn in Hk. destruct (str_scan r) as [[t a] b]. destruct t; [|discriminate].
    inversion Hk; subst. apply Hs. reflexivity. }
  pose proof (advance_token_lc feat c c' r r' Hc Hr H34) as A.
  unfold lex_word in *.
  destruct (advance_token feat (c :: r)) as [[k0 cs rs|]|]; try discriminate.
  destruct rs; [|discriminate]. inversion Hk; subst k0.
  destruct (advance_token feat (c' :: r')) as [[k1 cs' rs'|]|]; cbn in A; try contradiction.
  destruct A as (-> & _ & A). inversion A; subst. reflexivity.
Qed.

Corollary word_sim_case feat w w' k : lcs w w' -> lex_word feat w = Some k -> keeps_text k = false ->
  word_sim feat w w'.
Proof.
  intros H Hk Ht. exists k, k. split; [exact Hk|]. split.
  - apply (lex_word_case feat w w' k H Hk). intros ->. discriminate Ht.
  - split; [reflexivity|]. rewrite Ht. discriminate.
Qed.

(** The whole statement for keyword case: rewrite any words that are not labels or strings in another
    letter case, keep the separators or change them at will — the image is the same. *)
Definition word_case_sim (feat : bool) (w w' : list N) : Prop :=
  (exists k, lex_word feat w = Some k /\ keeps_text k = false /\ lcs w w') \/ word_sim feat w w'.

Theorem relayout_case feat sym0 src src' :
  Forall2 (word_case_sim feat) (source_words src) (source_words src') ->
  res_sim image_sim (fst (assemble feat sym0 src)) (fst (assemble feat sym0 src')) /\
  snd (assemble feat sym0 src) = snd (assemble feat sym0 src').
Proof.
  intros H. apply relayout. induction H as [|w w' ws ws' Hw _ IH]; constructor; [|exact IH].
  destruct Hw as [(k & Hk & Ht & Hl)|Hs]; [exact (word_sim_case feat w w' k Hl Hk Ht)|exact Hs].
Qed.

Example case_examples :
  lcs (str "BrNzP") (str "brnzp") /\ lex_word false (str "BrNzP") = Some (KInstr (IBr 7)) /\
  lcs (str "0XaBcD") (str "0xABCD") /\ lex_word false (str "0XaBcD") = Some (KLit (LHex 43981)).
Proof.
  repeat split; try (vm_compute; reflexivity);
    repeat (constructor; [vm_compute; reflexivity|]); constructor.
Qed.
