(* DriverDbg.v — debugger sessions for the correspondence check (C09-C13, C15-C17).

   case  = DBG feat fuel nsrc src* ninp inp* ntext text* ncmds cmd*     (text: the script as the implementation reads it; ignored here)
   cmd   = 0 help | 1 step | 2 stepinto COUNT | 3 stepout | 4 continue | 5 registers | 6 print LOC
         | 7 move LOC VALUE | 8 goto MEM | 9 assembly MEM | a eval N char* | b echo N char* | c reset
         | d quit | e exit | f breaklist | 10 breakadd MEM | 11 breakremove MEM
   LOC   = 0 REG | 1 MEM          MEM = 0 ADDR | 1 OFFSET | 2 N char* OFFSET
   lines = first:  kind code [state vs all-zero memory] ticks execs cmds attached nbps (addr predefined)*
           then one line per debugger stderr line: 7e char*
           (a source that does not assemble or load gives the single line "9") *)
From Lace Require Import Word Machine Isa Vm Asm Dbg Driver DebugText DbgStream.
Open Scope N_scope.

Definition dec_mem (l : list N) : memloc * list N :=
  match l with
  | 0 :: a :: r => (MAddr a, r)
  | 1 :: o :: r => (MPcOff o, r)
  | 2 :: n :: r => let '(name, r2) := take (N.to_nat n) r in (MLabel name (hdN r2), tlN r2)
  | _ => (MAddr 0, [])
  end.

Definition dec_loc (l : list N) : loc * list N :=
  match l with
  | 0 :: r :: rest => (LReg r, rest)
  | 1 :: rest => let '(m, r2) := dec_mem rest in (LMem m, r2)
  | _ => (LReg 0, [])
  end.

Definition dec_cmd (l : list N) : cmd * list N :=
  match l with
  | 0 :: r => (CHelp, r)
  | 1 :: r => (CStepOver, r)
  | 2 :: c :: r => (CStepInto c, r)
  | 3 :: r => (CStepOut, r)
  | 4 :: r => (CContinue, r)
  | 5 :: r => (CRegisters, r)
  | 6 :: r => let '(lo, r2) := dec_loc r in (CPrint lo, r2)
  | 7 :: r => let '(lo, r2) := dec_loc r in (CMove lo (hdN r2), tlN r2)
  | 8 :: r => let '(m, r2) := dec_mem r in (CGoto m, r2)
  | 9 :: r => let '(m, r2) := dec_mem r in (CAssembly m, r2)
  | 10 :: n :: r => let '(t, r2) := take (N.to_nat n) r in (CEval t, r2)
  | 11 :: n :: r => let '(t, r2) := take (N.to_nat n) r in (CEcho t, r2)
  | 12 :: r => (CReset, r)
  | 13 :: r => (CQuit, r)
  | 14 :: r => (CExit, r)
  | 15 :: r => (CBreakList, r)
  | 16 :: r => let '(m, r2) := dec_mem r in (CBreakAdd m, r2)
  | 17 :: r => let '(m, r2) := dec_mem r in (CBreakRemove m, r2)
  | _ => (CQuit, [])
  end.

Fixpoint dec_cmds (n : nat) (l : list N) : list cmd :=
  match n with
  | O => []
  | S n' => let '(c, r) := dec_cmd l in c :: dec_cmds n' r
  end.

Definition enc_session (r : session_result) : list (list N) :=
  let bps := match sr_dbg r with Some d => d_bps d | None => [] end in
  ([sr_kind r; sr_code r] ++ enc_state zero_state (sr_state r)
   ++ [sr_ticks r; sr_execs r; sr_cmds r; match sr_dbg r with Some _ => 1 | None => 0 end;
       N.of_nat (length bps)] ++ flat_map (fun b : N * bool => [fst b; if snd b then 1 else 0]) bps)
  :: List.map (fun line => 126 :: line)
       (filter (fun line => match line with [] => false | _ => true end) (sr_err r)).   (* empty lines are not compared *)

Definition run_dbg (args : list N) : list (list N) :=
  let feat := negb (hdN args =? 0) in
  let fuel := N.to_nat (hdN (tlN args)) in
  let '(src, r1) := take (N.to_nat (hdN (tlN (tlN args)))) (tlN (tlN (tlN args))) in
  let '(inp, r2) := take (N.to_nat (hdN r1)) (tlN r1) in
  let '(_, r3) := take (N.to_nat (hdN r2)) (tlN r2) in
  let script := dec_cmds (N.to_nat (hdN r3)) (tlN r3) in
  match debug_session feat src inp script fuel with
  | Some r => enc_session r
  | None => [[9]]
  end.

(** The same sessions with the script as TEXT, parsed by the command-language model:
    case  = DBGT feat fuel nsrc src* ninp inp* has_arg narg arg* nstdin stdin*
    lines = as for DBG; the single line "8" when the text is outside the domain of DebugText.v
            (a line that leaves the process: `sudo`) *)
Definition run_dbgt (args : list N) : list (list N) :=
  let feat := negb (hdN args =? 0) in
  let fuel := N.to_nat (hdN (tlN args)) in
  let '(src, r1) := take (N.to_nat (hdN (tlN (tlN args)))) (tlN (tlN (tlN args))) in
  let '(inp, r2) := take (N.to_nat (hdN r1)) (tlN r1) in
  let has_arg := negb (hdN r2 =? 0) in
  let '(arg, r3) := take (N.to_nat (hdN (tlN r2))) (tlN (tlN r2)) in
  let '(stdin, _) := take (N.to_nat (hdN r3)) (tlN r3) in
  let a := if has_arg then Some arg else None in
  if negb (text_in_domain a stdin) then [[8]]
  else
    match debug_text feat src inp a stdin fuel with
    | Some r => enc_session r
    | None => [[9]]
    end.

(** One console stream shared by the debugger's reader and the program (DbgStream.v):
    case  = DBGS feat fuel nsrc src* has_arg narg arg* nstream stream*
    lines = as for DBG; "8" when outside the domain of DbgStream.v *)
Definition run_dbgs (args : list N) : list (list N) :=
  let feat := negb (hdN args =? 0) in
  let fuel := N.to_nat (hdN (tlN args)) in
  let '(src, r1) := take (N.to_nat (hdN (tlN (tlN args)))) (tlN (tlN (tlN args))) in
  let has_arg := negb (hdN r1 =? 0) in
  let '(arg, r2) := take (N.to_nat (hdN (tlN r1))) (tlN (tlN r1)) in
  let '(stream, _) := take (N.to_nat (hdN r2)) (tlN r2) in
  let a := if has_arg then Some arg else None in
  match assemble feat [] src with
  | (Ok _, _) =>
      match debug_stream feat src a stream fuel with
      | Some r => enc_session r
      | None => [[8]]
      end
  | _ => [[9]]
  end.
