(* VmInput.v — THEOREM: the machine consumes its console input from the front, at most one byte
   per instruction, and only GETC / IN do. *)
From Coq Require Import List NArith Bool Lia.
From Lace Require Import Word Machine Isa Vm.
Import ListNotations.
Open Scope N_scope.

Lemma inp_set_reg st r v : s_inp (set_reg st r v) = s_inp st.
Proof. reflexivity. Qed.
Lemma inp_set_mem st a v : s_inp (set_mem st a v) = s_inp st.
Proof. reflexivity. Qed.
Lemma inp_set_pc st v : s_inp (set_pc st v) = s_inp st.
Proof. reflexivity. Qed.
Lemma inp_set_cc st v : s_inp (set_cc st v) = s_inp st.
Proof. reflexivity. Qed.
Lemma inp_set_flags st v : s_inp (set_flags st v) = s_inp st.
Proof. reflexivity. Qed.
Lemma inp_set_out st v : s_inp (set_out st v) = s_inp st.
Proof. reflexivity. Qed.
Lemma inp_emit st c : s_inp (emit st c) = s_inp st.
Proof. unfold emit. destruct (c =? 27); reflexivity. Qed.
Lemma inp_emit_list cs : forall st, s_inp (emit_list st cs) = s_inp st.
Proof. induction cs as [|c cs IH]; intros st; cbn [emit_list]; [reflexivity|]. rewrite IH. apply inp_emit. Qed.
Lemma inp_push_val st v : s_inp (push_val st v) = s_inp st.
Proof. reflexivity. Qed.

Lemma inp_puts_loop : forall fuel st a st', puts_loop fuel st a = Some st' -> s_inp st' = s_inp st.
Proof.
  induction fuel as [|fuel IH]; intros st a st' H; cbn [puts_loop] in H; [discriminate|].
  destruct (band (M st a) 255 =? 0); [inversion H; reflexivity|]. rewrite (IH _ _ _ H). apply inp_emit.
Qed.

Lemma inp_putsp_loop : forall fuel st a st', putsp_loop fuel st a = Some st' -> s_inp st' = s_inp st.
Proof.
  induction fuel as [|fuel IH]; intros st a st' H; cbn [putsp_loop] in H; [discriminate|].
  cbv zeta in H. destruct (band (M st a) 255 =? 0); [inversion H; reflexivity|].
  destruct (band (shr (M st a) 8) 255 =? 0); [inversion H; apply inp_emit|]. rewrite (IH _ _ _ H). rewrite !inp_emit. reflexivity.
Qed.

(** [drops k l l']: [l'] is [l] without its first [k] elements. *)
Definition consumed (st st' : state) : Prop := s_inp st' = s_inp st \/ s_inp st' = tl (s_inp st).

Ltac simple_handler H :=
  cbv zeta in H; repeat match type of H with context [if ?c then _ else _] => destruct c end;
  inversion H; subst; left; reflexivity.

Lemma h_simple_input instr st st' :
  (h_br instr st = Running st' \/ h_add instr st = Running st' \/ h_and instr st = Running st' \/
   h_ld instr st = Running st' \/ h_ldi instr st = Running st' \/ h_ldr instr st = Running st' \/
   h_lea instr st = Running st' \/ h_not instr st = Running st' \/ h_st instr st = Running st' \/
   h_sti instr st = Running st' \/ h_str instr st = Running st' \/ h_jmp instr st = Running st' \/
   h_jsr instr st = Running st' \/ h_rti instr st = Running st') -> consumed st st'.
Proof.
  unfold consumed, h_br, h_add, h_and, h_ld, h_ldi, h_ldr, h_lea, h_not, h_st, h_sti, h_str, h_jmp, h_jsr, h_rti.
  intros H. repeat (destruct H as [H|H]; [simple_handler H|]). discriminate.
Qed.

Lemma h_stack_input feat instr st st' : h_stack feat instr st = Running st' -> consumed st st'.
Proof. unfold consumed, h_stack, pop_val. intros H. simple_handler H. Qed.

Lemma h_trap_input instr st st' : h_trap instr st = Running st' -> consumed st st'.
Proof.
  unfold consumed, h_trap. cbv zeta. generalize LOOP_FOREVER. intros big. generalize (band instr 255). intros v H.
  destruct v as [|p]; [discriminate|].
  repeat (match type of H with context [match ?q with _ => _ end] => is_var q; destruct q; try discriminate end).
  all: try (inversion H; subst; left; rewrite ?inp_emit_list, ?inp_emit; reflexivity).
  all: try (unfold read_char in H; destruct (s_inp st) as [|b rest] eqn:E; [discriminate|];
            inversion H; subst; right; cbn; rewrite ?inp_emit; reflexivity).
  all: try (match type of H with context [puts_loop ?f ?s ?a] => destruct (puts_loop f s a) eqn:E; [|discriminate];
              inversion H; subst; left; exact (inp_puts_loop _ _ _ _ E) end).
  all: try (match type of H with context [putsp_loop ?f ?s ?a] => destruct (putsp_loop f s a) eqn:E; [|discriminate];
              inversion H; subst; left; exact (inp_putsp_loop _ _ _ _ E) end).
Qed.

Theorem execute_input feat instr st st' : execute feat instr st = Running st' -> consumed st st'.
Proof.
  unfold execute. generalize (shr instr 12). intros op H.
  destruct op as [|p]; [apply (h_simple_input instr); tauto|].
  repeat (match type of H with context [match ?q with _ => _ end] => is_var q; destruct q end).
  all: first [ apply h_trap_input in H; exact H
             | apply h_stack_input in H; exact H
             | apply (h_simple_input instr); tauto ].
Qed.

Corollary execute_no_input feat instr st st' :
  execute feat instr st = Running st' -> s_inp st = [] -> s_inp st' = [].
Proof. intros H E. destruct (execute_input feat instr st st' H) as [K|K]; rewrite K, E; reflexivity. Qed.

(* ------------------------------------------------------------------ *)
(** * Exactly which instructions consume input *)

Ltac same_handler H :=
  cbv zeta in H; repeat match type of H with context [if ?c then _ else _] => destruct c end;
  inversion H; subst; reflexivity.

Lemma h_simple_same instr st st' :
  (h_br instr st = Running st' \/ h_add instr st = Running st' \/ h_and instr st = Running st' \/
   h_ld instr st = Running st' \/ h_ldi instr st = Running st' \/ h_ldr instr st = Running st' \/
   h_lea instr st = Running st' \/ h_not instr st = Running st' \/ h_st instr st = Running st' \/
   h_sti instr st = Running st' \/ h_str instr st = Running st' \/ h_jmp instr st = Running st' \/
   h_jsr instr st = Running st' \/ h_rti instr st = Running st') -> s_inp st' = s_inp st.
Proof.
  unfold h_br, h_add, h_and, h_ld, h_ldi, h_ldr, h_lea, h_not, h_st, h_sti, h_str, h_jmp, h_jsr, h_rti.
  intros H. repeat (destruct H as [H|H]; [same_handler H|]). discriminate.
Qed.

Lemma h_stack_same feat instr st st' : h_stack feat instr st = Running st' -> s_inp st' = s_inp st.
Proof. unfold h_stack, pop_val. intros H. same_handler H. Qed.

Definition reads_input (v : N) : bool := (v =? 32) || (v =? 35).

Lemma h_trap_exact instr st st' : h_trap instr st = Running st' ->
  if reads_input (band instr 255)
  then s_inp st' = tl (s_inp st) /\ s_inp st <> []
  else s_inp st' = s_inp st.
Proof.
  unfold h_trap, reads_input. cbv zeta. generalize LOOP_FOREVER. intros big. generalize (band instr 255). intros v H.
  destruct v as [|p]; [discriminate|].
  repeat (match type of H with context [match ?q with _ => _ end] => is_var q; destruct q; try discriminate end).
  all: cbn [N.eqb Pos.eqb orb].
  all: try (inversion H; subst; rewrite ?inp_emit_list, ?inp_emit; reflexivity).
  all: try (unfold read_char in H; destruct (s_inp st) as [|b rest] eqn:E; [discriminate|];
            inversion H; subst; split; [cbn; rewrite ?inp_emit; reflexivity|discriminate]).
  all: try (match type of H with context [puts_loop ?f ?s ?a] => destruct (puts_loop f s a) eqn:E; [|discriminate];
              inversion H; subst; exact (inp_puts_loop _ _ _ _ E) end).
  all: try (match type of H with context [putsp_loop ?f ?s ?a] => destruct (putsp_loop f s a) eqn:E; [|discriminate];
              inversion H; subst; exact (inp_putsp_loop _ _ _ _ E) end).
Qed.

(** GETC (x20) and IN (x23) take exactly one byte — the first — and need one to be there; every other
    instruction leaves the input alone. *)
Theorem execute_input_exact feat instr st st' : execute feat instr st = Running st' ->
  if (15 <=? shr instr 12) && reads_input (band instr 255)
  then s_inp st' = tl (s_inp st) /\ s_inp st <> []
  else s_inp st' = s_inp st.
Proof.
  unfold execute. generalize (shr instr 12). intros op H.
  destruct op as [|p]; [cbn [N.leb N.compare andb]; apply (h_simple_same instr); tauto|].
  repeat (match type of H with context [match ?q with _ => _ end] => is_var q; destruct q end).
  all: first
    [ (* a trap *)
      apply h_trap_exact in H;
      match goal with |- context [?a <=? ?b] => replace (a <=? b) with true by (symmetry; apply N.leb_le; lia) end;
      cbn [andb]; exact H
    | (* anything else *)
      match goal with |- context [?a <=? ?b] => replace (a <=? b) with false by (symmetry; apply N.leb_gt; lia) end;
      cbn [andb]; first [ apply h_stack_same in H; exact H | apply (h_simple_same instr); tauto ] ].
Qed.
