(* AsmProgram.v — THEOREM: acceptance at PROGRAM level, as one equivalence.

   AsmAccept.v says when one statement is accepted (every operand fits its position in the operand
   table [shape]).  Here the statements are put together: [prog_ok] walks the preprocessed tokens
   once, structurally, and decides

     - every statement head (mnemonic, trap, data word, `.orig`) is followed by operands that fit
       its entry in the operand table; nothing else may start a statement;
     - a label is defined at most once (the inherited table counts), stands in front of a
       statement, a `.break` or an `.orig` — not in front of another label or the end of the file;
     - `.orig` occurs at most once;
     - the statements number fewer than 65,535.

   [parse_acc]: the parser accepts iff [prog_ok] says so.  [emit_acc]: what the parser accepted is
   emitted iff every referenced label is defined and every PC-relative distance fits its field
   ([line_ok]).  [assemble_acc] puts the two together for the whole assembler. *)
From Coq Require Import List NArith ZArith Bool Lia.
From Lace Require Import Word Machine Isa Vm Asm AsmLayout AsmAccept.
Import ListNotations.
Open Scope N_scope.

Definition is_some {A} (o : option A) : bool := match o with Some _ => true | None => false end.

Definition acc {A B} (r : res A * B) : bool := match fst r with Ok _ => true | _ => false end.
Definition is_ok {A} (r : res A) : bool := match r with Ok _ => true | _ => false end.

(** [skip]: operand tokens of the current statement still to pass; [labeled]: a label has just been
    read; [line]: the number the next statement gets; [sym]: the labels defined so far; [orig]: an
    origin has been set. *)
Fixpoint prog_ok (skip : nat) (toks : list token) (labeled : bool) (line : N) (sym : symtab) (orig : bool) : bool :=
  match toks with
  | [] => negb labeled
  | t :: r =>
      match skip with
      | S k => prog_ok k r labeled line sym orig
      | O =>
          match tk t with
          | KLabel =>
              if labeled then false
              else if is_some (sym_get sym (ttext t)) then false
              else prog_ok 0 r true line (sym_put sym (ttext t) line) orig
          | KBreakpoint => prog_ok 0 r false line sym orig
          | KDir DOrig =>
              fits_all [OLit (Unsigned 16)] r && negb orig && prog_ok 1 r false line sym true
          | KInstr k =>
              fits_all (shape k) r && (line + 1 <? W) && prog_ok (length (shape k)) r false (line + 1) sym orig
          | KTrap k =>
              fits_all (trap_shape k) r && (line + 1 <? W) &&
              prog_ok (length (trap_shape k)) r false (line + 1) sym orig
          | KByte _ => (line + 1 <? W) && prog_ok 0 r false (line + 1) sym orig
          | _ => false
          end
      end
  end.

Lemma prog_ok_skipn : forall w r lab line sym orig,
  lab = false -> prog_ok w r lab line sym orig = prog_ok 0 (skipn w r) lab line sym orig.
Proof.
  induction w as [|w IH]; intros r lab line sym orig Hl; [reflexivity|].
  destruct r as [|t r]; [subst; reflexivity|]. cbn [prog_ok skipn]. apply IH. exact Hl.
Qed.

Lemma skipn_length_le {A} : forall w (r : list A), (length (skipn w r) <= length r)%nat.
Proof. intros w r. rewrite skipn_length. lia. Qed.

Lemma expect_lit_acc b r te n :
  is_ok (expect_lit b (r, te) n) = fits_all [OLit b] r.
Proof.
  pose proof (expect_lit_spec b r te n) as K. unfold spec1 in K.
  destruct (expect_lit b (r, te) n) as [[v [r2 te2]]| |]; cbn [is_ok fits_all].
  - destruct K as (t & -> & Hf & _). rewrite Hf. reflexivity.
  - destruct r as [|t r']; [reflexivity|]. rewrite K. reflexivity.
  - contradiction.
Qed.

Lemma parse_instr_acc sym line k r te n : is_ok (parse_instr sym line k (r, te) n) = fits_all (shape k) r.
Proof.
  pose proof (parse_instr_accepts sym line k r te n) as K. unfold specL in K.
  destruct (parse_instr sym line k (r, te) n) as [[s [r2 te2]]| |]; cbn [is_ok].
  - symmetry. apply K.
  - symmetry. exact K.
  - contradiction.
Qed.

Lemma parse_trap_acc k r te n : is_ok (parse_trap k (r, te) n) = fits_all (trap_shape k) r.
Proof.
  pose proof (parse_trap_accepts k r te n) as K. unfold specL in K.
  destruct (parse_trap k (r, te) n) as [[s [r2 te2]]| |]; cbn [is_ok].
  - symmetry. apply K.
  - symmetry. exact K.
  - contradiction.
Qed.

Definition ok_of (q : parser) : bool :=
  prog_ok 0 (p_toks q) false (p_line q) (p_sym q) (is_some (a_orig (p_air q))).

(** One round after the optional label. *)
Lemma stmt_part_acc rec n ps labeled toks1 sym1 :
  (forall q, (length (p_toks q) < length toks1)%nat -> acc (rec q) = ok_of q) ->
  match toks1 with t :: _ => labeled = true \/ tk t <> KLabel | [] => True end ->
  acc (stmt_part rec n ps labeled toks1 sym1) =
  prog_ok 0 toks1 labeled (p_line ps) sym1 (is_some (a_orig (p_air ps))).
Proof.
  intros Hrec Hhead. unfold stmt_part.
  destruct toks1 as [|t r]; [destruct labeled; reflexivity|].
  assert (Hfin : forall (x : res (stmt * pst)) w,
     (forall s toks2 te2, x = Ok (s, (toks2, te2)) -> toks2 = skipn w r) ->
     acc (match x with
          | Err d a n0 => (Err d a n0, sym1) | Bad w0 => (Bad w0, sym1)
          | Ok (s, (toks2, tok_end2)) =>
              if p_line ps + 1 <? W
              then rec (mkParser toks2 (mkAir (a_orig (p_air ps))
                          (mkLine (wrap (p_count ps + 1)) s (toffs t)
                             (if tok_end2 <=? toffs t then tlen t else tok_end2 - toffs t) :: a_ast (p_air ps))
                          (a_bps (p_air ps))) (p_line ps + 1) tok_end2 sym1 (p_count ps + 1))
              else (Err E_too_long (n - 1) 0, sym1)
          end) =
     is_ok x && (p_line ps + 1 <? W) &&
     prog_ok w r false (p_line ps + 1) sym1 (is_some (a_orig (p_air ps)))).
  { intros x w Hx. destruct x as [[s [toks2 te2]]| |]; cbn [is_ok andb]; try reflexivity.
    pose proof (Hx s toks2 te2 eq_refl) as E. subst toks2.
    destruct (p_line ps + 1 <? W); [|reflexivity]. cbn [andb].
    rewrite Hrec by (cbn [p_toks length]; pose proof (skipn_length_le w r); lia).
    unfold ok_of. cbn [p_toks p_line p_sym p_air a_orig]. symmetry. apply prog_ok_skipn. reflexivity. }
  cbn [prog_ok].
  destruct (tk t) as [|k|k|l|d|rg|v| | | | ] eqn:Ek; cbn [unexpected]; try reflexivity.
  - (* label: only after a label *)
    destruct Hhead as [->|Hn]; [reflexivity|congruence].
  - (* instruction *)
    rewrite (Hfin _ (length (shape k))).
    + rewrite parse_instr_acc. destruct labeled; reflexivity.
    + intros s toks2 te2 E. apply (parse_instr_consumes _ _ _ _ _ _ _ _ _ E).
  - (* trap *)
    rewrite (Hfin _ (length (trap_shape k))).
    + rewrite parse_trap_acc. destruct labeled; reflexivity.
    + intros s toks2 te2 E. apply (parse_trap_consumes _ _ _ _ _ _ _ E).
  - (* directive *)
    destruct d; try reflexivity.
    pose proof (expect_lit_acc (Unsigned 16) r (p_tok_end ps) n) as Ha.
    pose proof (expect_lit_spec (Unsigned 16) r (p_tok_end ps) n) as Hsp.
    destruct (expect_lit (Unsigned 16) (r, p_tok_end ps) n) as [[v [toks2 te2]]| |]; cbn [is_ok] in Ha; rewrite <- Ha;
      try reflexivity.
    cbn [andb]. destruct (a_orig (p_air ps)); cbn [is_some negb andb]; [reflexivity|].
    cbn [spec1] in Hsp. destruct Hsp as (t1 & -> & _ & _).
    rewrite Hrec by (cbn [p_toks length]; lia).
    unfold ok_of. cbn [p_toks p_line p_sym p_air a_orig is_some prog_ok]. reflexivity.
  - (* data word *)
    rewrite (Hfin (Ok (SRawWord v, (r, p_tok_end ps))) 0%nat).
    + cbn [is_ok andb]. destruct labeled; reflexivity.
    + intros s toks2 te2 E. inversion E. reflexivity.
  - (* .break *)
    rewrite Hrec by (cbn [p_toks length]; lia).
    unfold ok_of. cbn [p_toks p_line p_sym p_air a_orig]. reflexivity.
Qed.

(** The parser accepts iff [prog_ok] does. *)
Theorem parse_acc : forall fuel n ps, (length (p_toks ps) < fuel)%nat -> acc (parse fuel n ps) = ok_of ps.
Proof.
  induction fuel as [|fuel IH]; intros n ps Hf; [lia|].
  rewrite parse_round. unfold ok_of.
  destruct (p_toks ps) as [|t r] eqn:Et.
  - rewrite stmt_part_acc; [reflexivity| |exact I]. intros q Hq. cbn [length] in Hq. lia.
  - cbn [length] in Hf.
    destruct (tk t) eqn:Ek;
      try (rewrite stmt_part_acc;
           [reflexivity | intros q Hq; apply IH; cbn [length] in Hq; lia | right; congruence]).
    cbn [prog_ok]. rewrite Ek. cbn [negb].
    destruct (sym_get (p_sym ps) (ttext t)); cbn [is_some]; [reflexivity|].
    rewrite stmt_part_acc; [reflexivity| |destruct r; [exact I|left; reflexivity]].
    intros q Hq. apply IH. lia.
Qed.

(* ------------------------------------------------------------------ *)
(** * References: defined, and within reach *)

(** The label operand of a statement and the width of its field. *)
Definition stmt_ref (s : stmt) : option (label * N) :=
  match s with
  | SBranch _ l | SLoad _ l | SLoadInd _ l | SLoadEAddr _ l | SStore _ l | SStoreInd _ l => Some (l, 9)
  | SJumpSub l => Some (l, 11)
  | SCall l => Some (l, 10)
  | _ => None
  end.

Definition resolve (sym : symtab) (l : label) : option N :=
  match l with LRef r => Some r | LUnfilled name => sym_get sym name end.

Definition line_ok (sym : symtab) (ln : asm_line) : bool :=
  match stmt_ref (al_stmt ln) with
  | None => true
  | Some (l, nbits) =>
      match resolve sym l with
      | None => false
      | Some r => is_ok (bit_offs (al_line ln) (LRef r) nbits)
      end
  end.

Lemma fill_resolve sym l :
  match fill sym l with
  | Ok l' => exists r, resolve sym l = Some r /\ l' = LRef r
  | Err _ _ _ => resolve sym l = None
  | Bad _ => False
  end.
Proof.
  destruct l as [r|name]; cbn [fill resolve]; [eexists; split; reflexivity|].
  destruct (sym_get sym name); [eexists; split; reflexivity|reflexivity].
Qed.

(** One line through backpatching and emission. *)
Lemma line_acc sym ln :
  match backpatch_stmt sym (al_stmt ln) with
  | Ok s' => is_ok (emit (mkLine (al_line ln) s' (al_offs ln) (al_len ln))) = line_ok sym ln
  | Err _ _ _ => line_ok sym ln = false
  | Bad _ => False
  end.
Proof.
  unfold line_ok. destruct ln as [line s offs len]. cbn [al_stmt al_line al_offs al_len].
  destruct s; cbn [backpatch_stmt stmt_ref]; try reflexivity;
    match goal with
    | |- context [fill sym ?l] =>
        pose proof (fill_resolve sym l) as K; destruct (fill sym l) as [l'| |]; cbn [bind];
        [destruct K as (r & -> & ->); unfold emit; cbn [al_stmt al_line];
         destruct (bit_offs line (LRef r) _); reflexivity
        |rewrite K; reflexivity|contradiction]
    end.
Qed.

Theorem emit_acc sym : forall ls,
  match backpatch sym ls with
  | Ok ls' => is_ok (emit_all ls') = forallb (line_ok sym) ls
  | Err _ _ _ => forallb (line_ok sym) ls = false
  | Bad _ => False
  end.
Proof.
  induction ls as [|ln ls IH]; [reflexivity|]. cbn [backpatch forallb].
  pose proof (line_acc sym ln) as K.
  destruct (backpatch_stmt sym (al_stmt ln)) as [s'| |]; cbn [bind]; [|rewrite K; reflexivity|contradiction].
  destruct (backpatch sym ls) as [ls'| |]; cbn [bind]; [|rewrite IH; apply andb_false_r|contradiction].
  cbn [emit_all]. rewrite <- K, <- IH.
  destruct (emit _); cbn [bind is_ok andb]; try reflexivity.
  destruct (emit_all ls'); reflexivity.
Qed.

(* ------------------------------------------------------------------ *)
(** * The whole assembler *)

(** Accepted iff the program is well-formed and every reference is defined and within reach.
    (The second part is stated on the statements the parser produced; AsmWf.v / C01_image tie them
    to the source.) *)
Theorem assemble_toks_acc sym0 toks n :
  acc (assemble_toks sym0 toks n) =
  prog_ok 0 toks false 1 sym0 false &&
  match parse (S (length toks)) n (mkParser toks (mkAir None [] []) 1 0 sym0 0) with
  | (Ok (a, _), sym1) => forallb (line_ok sym1) (a_ast a)
  | _ => false
  end.
Proof.
  pose proof (parse_acc (S (length toks)) n (mkParser toks (mkAir None [] []) 1 0 sym0 0)) as P.
  cbn [p_toks] in P. specialize (P (Nat.lt_succ_diag_r _)). unfold ok_of in P. cbn [p_toks p_line p_sym p_air a_orig is_some] in P.
  rewrite <- P. unfold assemble_toks, acc.
  destruct (parse _ _ _) as [[[a s2]| |] sym1]; cbn [fst andb]; try reflexivity.
  pose proof (emit_acc sym1 (a_ast a)) as E.
  destruct (backpatch sym1 (a_ast a)) as [ast'| |]; cbn [fst]; [|symmetry; exact E|contradiction].
  rewrite <- E. destruct (emit_all ast'); reflexivity.
Qed.

Theorem assemble_acc feat sym0 src toks :
  preprocess feat (S (length src)) src 0 [] = Ok toks ->
  acc (assemble feat sym0 src) =
  prog_ok 0 toks false 1 sym0 false &&
  match parse (S (length toks)) (bytes src) (mkParser toks (mkAir None [] []) 1 0 sym0 0) with
  | (Ok (a, _), sym1) => forallb (line_ok sym1) (a_ast a)
  | _ => false
  end.
Proof. intros Hp. rewrite assemble_split, Hp. apply assemble_toks_acc. Qed.

(* ------------------------------------------------------------------ *)
(** * Non-vacuity *)
From Coq Require Import String.

Definition toks_of (s : list N) : list token :=
  match preprocess true (S (List.length s)) s 0 [] with Ok t => t | _ => [] end.

(** Accepted: labels, a `.break`, an `.orig` behind a label, a trap, data. *)
Definition ex_prog_ok : list N := str "start .orig x4000
loop add r0 r0 #1
.break
brnp loop
call sub
trap x25
sub rets
msg .stringz ""hi""
".

(** Rejected, one reason each: label defined twice; `.orig` twice; operand out of range; a label in
    front of the end of the file; two labels in a row. *)
Definition ex_prog_dup : list N := str "a halt
a halt
".
Definition ex_prog_orig2 : list N := str ".orig x3000
halt
.orig x4000
".
Definition ex_prog_range : list N := str "add r0 r0 #16
".
Definition ex_prog_dangling : list N := str "halt
a
".
Definition ex_prog_labels : list N := str "a b halt
".

Lemma ex_prog_verdicts :
  prog_ok 0 (toks_of ex_prog_ok) false 1 [] false = true /\
  acc (assemble true [] ex_prog_ok) = true /\
  prog_ok 0 (toks_of ex_prog_dup) false 1 [] false = false /\
  prog_ok 0 (toks_of ex_prog_orig2) false 1 [] false = false /\
  prog_ok 0 (toks_of ex_prog_range) false 1 [] false = false /\
  prog_ok 0 (toks_of ex_prog_dangling) false 1 [] false = false /\
  prog_ok 0 (toks_of ex_prog_labels) false 1 [] false = false /\
  acc (assemble true [] ex_prog_dup) = false /\ acc (assemble true [] ex_prog_labels) = false.
Proof. vm_compute. repeat split. Qed.

(** Well-formed, but a reference is undefined / out of reach: [line_ok] fails. *)
Definition ex_prog_undef : list N := str "br nowhere
halt
".
Definition ex_prog_far : list N := str "br far
.blkw #256
far halt
".

Lemma ex_prog_refs :
  prog_ok 0 (toks_of ex_prog_undef) false 1 [] false = true /\ acc (assemble true [] ex_prog_undef) = false /\
  prog_ok 0 (toks_of ex_prog_far) false 1 [] false = true /\ acc (assemble true [] ex_prog_far) = false.
Proof. vm_compute. repeat split. Qed.
