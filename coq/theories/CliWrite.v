(* CliWrite.v — MODEL of the route `write_object_file` (main.rs, since F39 / F41) takes for each KIND of
   destination and each combination of operating-system faults, refining the oracle of Cli.v; and the
   THEOREM that says when the one outcome C08 excludes can still arise: only when the write itself
   stops half-way AND the destination is written directly - which, since devices, pipes and directories
   keep no half-written data, comes down to: the directory refuses the temporary file. *)
From Coq Require Import List NArith Bool Lia.
From Lace Require Import Word Asm Cli CliProofs.
Import ListNotations.
Open Scope N_scope.

(** What `fs::canonicalize` + `fs::symlink_metadata` find at the destination. *)
Inductive dkind :=
| KAbsent            (* nothing there (canonicalize fails, metadata: NotFound) *)
| KRegular           (* a regular file *)
| KLinkRegular       (* a symbolic link (chain) to a regular file: resolved, the file behind it is replaced *)
| KDangling          (* a symbolic link to nothing yet: resolved like any link, the file it names is created (F42) *)
| KSpecial           (* device, pipe, socket *)
| KDir.              (* a directory (or a link to one) *)

(** The faults the operating system may inject. *)
Record faults := mkFaults {
  temp_refused : bool;            (* the directory takes no new file (`File::create(&temp)` fails) *)
  create_refused : bool;          (* `File::create(dest)` fails (directory in the way, missing directory, permissions) *)
  write_stops : option nat;       (* the write is cut off after this many bytes (full disk, quota, size limit) *)
  takes_no_data : bool;           (* a device that accepts nothing (/dev/full) *)
  rename_refused : bool           (* `fs::rename(temp, target)` fails *)
}.

Inductive route := Temp | Direct.

Definition route_of (k : dkind) : route :=
  match k with
  | KAbsent | KRegular | KLinkRegular | KDangling => Temp
  | KSpecial | KDir => Direct
  end.

(** The direct write: create (truncating a file that keeps data), then write. *)
Definition direct_outcome (k : dkind) (fl : faults) : write_outcome :=
  if create_refused fl then WCreateFail
  else match k with
       | KDir => WCreateFail                                   (* `File::create` on a directory fails *)
       | KSpecial => if takes_no_data fl then WWriteFailSpecial else WOk
       | _ => match write_stops fl with
              | Some n => WWriteFailTruncated n
              | None => WOk
              end
       end.

Definition outcome_of (k : dkind) (fl : faults) : write_outcome :=
  match route_of k with
  | Direct => direct_outcome k fl
  | Temp =>
      if temp_refused fl then direct_outcome k fl               (* the fall-back *)
      else match write_stops fl with
           | Some _ => WTempFail                                (* temporary file removed *)
           | None => if rename_refused fl then WTempFail else WOk
           end
  end.

(** An absent, regular or linked-regular destination whose directory takes the temporary file is never
    left half-written, whatever else goes wrong. *)
Theorem temp_route_preserving k fl :
  route_of k = Temp -> temp_refused fl = false -> preserving (outcome_of k fl).
Proof.
  intros Hr Ht. unfold outcome_of. rewrite Hr, Ht. unfold preserving.
  destruct (write_stops fl); [exact I|]. destruct (rename_refused fl); exact I.
Qed.

(** Exactly when the excluded outcome arises. *)
Theorem truncated_iff k fl n :
  outcome_of k fl = WWriteFailTruncated n <->
  write_stops fl = Some n /\ create_refused fl = false /\ route_of k = Temp /\ temp_refused fl = true.
Proof.
  unfold outcome_of, direct_outcome. split.
  - intros H.
    destruct (temp_refused fl) eqn:Ht.
    all: destruct (create_refused fl) eqn:Hc.
    all: destruct (write_stops fl) as [m|] eqn:Hw.
    all: destruct (takes_no_data fl) eqn:Hd.
    all: destruct (rename_refused fl) eqn:Hn.
    all: destruct k; cbn [route_of] in H; try discriminate H.
    all: injection H as ->; repeat split; auto.
  - intros [Hw [Hc [Hr Ht]]].
    destruct k; cbn [route_of] in Hr; try discriminate; rewrite Ht, Hc, Hw; reflexivity.
Qed.

(** With one fault only (any single field set, the others clear) the destination is never half-written. *)
Definition single_fault (fl : faults) : Prop :=
  (if temp_refused fl then 1 else 0) + (if create_refused fl then 1 else 0) +
  (match write_stops fl with Some _ => 1 | None => 0 end) + (if takes_no_data fl then 1 else 0) +
  (if rename_refused fl then 1 else 0) <= 1.

Theorem single_fault_preserving k fl : single_fault fl -> preserving (outcome_of k fl).
Proof.
  intros Hs. destruct (outcome_of k fl) eqn:E; try exact I.
  apply truncated_iff in E as [Hw [_ [_ Ht]]].
  unfold single_fault in Hs. rewrite Hw, Ht in Hs.
  destruct (create_refused fl), (takes_no_data fl), (rename_refused fl); cbn in Hs; lia.
Qed.

(** The whole command over the refined oracle. *)
Theorem compile_kinds : forall feat src dest f k fl,
  let '(e, f') := compile_cmd feat src dest f (outcome_of k fl) in
  (e = 0 -> exists im, assembles feat src = Ok im /\ f' dest = Some (compile_bytes im)) /\
  (e <> 0 -> (route_of k = Temp /\ temp_refused fl = false \/ single_fault fl) -> forall p, f' p = f p).
Proof.
  intros feat src dest f k fl. pose proof (compile_all_or_nothing feat src dest f (outcome_of k fl)) as H.
  destruct (compile_cmd feat src dest f (outcome_of k fl)) as [e f']. destruct H as [H0 [H1 _]].
  split; [exact H0|]. intros He [[Hr Ht]|Hs]; apply H1; try exact He.
  - apply temp_route_preserving; assumption.
  - apply single_fault_preserving; assumption.
Qed.

(** Non-vacuity: F39 (a regular destination, the write cut off), F41 (the same through a link), and the
    outcome that remains (the directory refuses the temporary file as well). *)
Example kinds_examples :
  outcome_of KRegular (mkFaults false false (Some 1024%nat) false false) = WTempFail /\
  outcome_of KLinkRegular (mkFaults false false (Some 1024%nat) false false) = WTempFail /\
  outcome_of KAbsent (mkFaults false false None false false) = WOk /\
  outcome_of KSpecial (mkFaults false false None true false) = WWriteFailSpecial /\
  outcome_of KRegular (mkFaults true false (Some 1024%nat) false false) = WWriteFailTruncated 1024 /\
  single_fault (mkFaults false false (Some 1024%nat) false false).
Proof. repeat split; try reflexivity. unfold single_fault. cbn. apply N.le_refl. Qed.
