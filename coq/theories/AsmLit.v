(* AsmLit.v — THEOREM: what a numeric literal denotes.

   SPEC: a numeral is an optional sign followed by at least one digit of its radix (letters in
   either case for radix 16); it denotes an integer in the usual way ([numeral]).  A literal of the
   assembler (`#...` decimal, `x...` / `X...` / `0x...` / `0X...` hexadecimal) denotes the 16-bit
   pattern of that integer when the integer lies in [-32768, 65535], and nothing otherwise
   ([lit_value]): `#-1`, `xFFFF`, `x-1`, `0XffFF`, `#65535` are one and the same operand.

   THEOREM ([parse_lit_value]): the lexer's two-step reading - Rust's `i16::from_str_radix`, and
   `u16::from_str_radix` when that fails - computes exactly [lit_value]; hence ([hex_word],
   [dec_word]) a word lexes as a literal of value v iff its digits denote v. *)
From Coq Require Import List NArith ZArith Bool Lia ZifyBool String.
From Lace Require Import Word Machine Isa Vm Asm AsmTotal AsmLayout AsmLex.
Import ListNotations.
Open Scope N_scope.

(* ------------------------------------------------------------------ *)
(** * SPEC *)

(** The natural number a digit string denotes, most significant digit first. *)
Fixpoint digits_val (radix : N) (ds : list N) (acc : N) : option N :=
  match ds with
  | [] => Some acc
  | c :: r => match to_digit radix c with
              | Some d => digits_val radix r (acc * radix + d)
              | None => None
              end
  end.

Definition unsigned_numeral (radix : N) (ds : list N) : option N :=
  match ds with [] => None | _ => digits_val radix ds 0 end.

(** Optional sign, then at least one digit. *)
Definition numeral (radix : N) (s : list N) : option Z :=
  match s with
  | [] => None
  | c :: r =>
      if c =? 43 then option_map Z.of_N (unsigned_numeral radix r)
      else if c =? 45 then option_map (fun n => (- Z.of_N n)%Z) (unsigned_numeral radix r)
      else option_map Z.of_N (unsigned_numeral radix s)
  end.

(** The 16-bit pattern of an integer between -32768 and 65535. *)
Definition lit_value (radix : N) (s : list N) : option N :=
  match numeral radix s with
  | Some z => if ((-32768 <=? z) && (z <=? 65535))%Z then Some (Z.to_N (z mod 65536)) else None
  | None => None
  end.

(** What the lexer does with the digits of a literal. *)
Definition parse_lit (radix : N) (s : list N) : option N :=
  match parse_i16 radix s with
  | POk v => Some v
  | PErr _ => match parse_u16 radix s with POk v => Some v | PErr _ => None end
  end.

(* ------------------------------------------------------------------ *)
(** * Digits *)

Lemma digits_val_ge radix : 1 <= radix -> forall ds acc v, digits_val radix ds acc = Some v -> acc <= v.
Proof.
  intros Hr. induction ds as [|c r IH]; intros acc v H; cbn [digits_val] in H.
  - inversion H. lia.
  - destruct (to_digit radix c) as [d|]; [|discriminate]. apply IH in H. nia.
Qed.

(** [acc_digits] succeeds exactly when the digits denote a number within the bound. *)
Lemma acc_digits_ok radix max : 1 <= radix -> forall ds acc v, acc <= max ->
  (acc_digits radix max ds acc = POk v <-> digits_val radix ds acc = Some v /\ v <= max).
Proof.
  intros Hr. induction ds as [|c r IH]; intros acc v Ha; cbn [acc_digits digits_val].
  - split; [intros H; inversion H; subst; auto|intros [H _]; inversion H; reflexivity].
  - destruct (to_digit radix c) as [d|]; [|split; [discriminate|intros [H _]; discriminate]].
    destruct (max <? acc * radix + d) eqn:E.
    + apply N.ltb_lt in E. split; [discriminate|]. intros [H Hv].
      apply (digits_val_ge radix Hr) in H. lia.
    + apply N.ltb_ge in E. apply IH. exact E.
Qed.

Lemma acc_digits_none radix max : 1 <= radix -> forall ds acc, acc <= max ->
  digits_val radix ds acc = None -> forall v, acc_digits radix max ds acc <> POk v.
Proof.
  intros Hr ds acc Ha Hn v H. apply (acc_digits_ok radix max Hr) in H; [|exact Ha]. destruct H as [H _]. congruence.
Qed.

(* ------------------------------------------------------------------ *)
(** * The two integer readers *)

Definition ok_of (p : pres) : option N := match p with POk v => Some v | PErr _ => None end.

Lemma ok_acc radix max ds : 1 <= radix ->
  ok_of (acc_digits radix max ds 0) =
  match digits_val radix ds 0 with Some v => if v <=? max then Some v else None | None => None end.
Proof.
  intros Hr. destruct (acc_digits radix max ds 0) as [v|e] eqn:E; cbn [ok_of].
  - apply (acc_digits_ok radix max Hr) in E; [|lia]. destruct E as [-> Hv].
    apply N.leb_le in Hv. rewrite Hv. reflexivity.
  - destruct (digits_val radix ds 0) as [v|] eqn:Ed; [|reflexivity].
    destruct (v <=? max) eqn:Ev; [|reflexivity]. apply N.leb_le in Ev.
    assert (K : acc_digits radix max ds 0 = POk v) by (apply (acc_digits_ok radix max Hr); [lia|auto]).
    congruence.
Qed.

Lemma sign_not_digit radix c : (c =? 43) || (c =? 45) = true -> to_digit radix c = None.
Proof.
  intros H. apply orb_true_iff in H as [H|H]; apply N.eqb_eq in H; subst; reflexivity.
Qed.

(** The unsigned reader: the number, when it is at most 65535 (a `-` is not accepted). *)
Lemma parse_u16_spec radix s : 1 <= radix ->
  ok_of (parse_u16 radix s) =
  match s with
  | [] => None
  | c :: r =>
      if c =? 45 then None
      else match (if c =? 43 then unsigned_numeral radix r else unsigned_numeral radix s) with
           | Some v => if v <=? 65535 then Some v else None
           | None => None
           end
  end.
Proof.
  intros Hr. destruct s as [|c r]; [reflexivity|]. cbn [parse_u16].
  destruct r as [|d t].
  - destruct (c =? 43) eqn:E1; cbn [orb unsigned_numeral].
    + destruct (c =? 45); reflexivity.
    + destruct (c =? 45) eqn:E2; cbn [orb]; [reflexivity|].
      rewrite (ok_acc radix 65535 [c] Hr). reflexivity.
  - destruct (c =? 43) eqn:E1.
    + apply N.eqb_eq in E1. subst c. cbn [N.eqb]. change (43 =? 45) with false. cbv iota.
      rewrite (ok_acc radix 65535 (d :: t) Hr). reflexivity.
    + destruct (c =? 45) eqn:E2.
      * rewrite (ok_acc radix 65535 (c :: d :: t) Hr). cbn [digits_val].
        rewrite (sign_not_digit radix c) by (rewrite E2; apply orb_true_r). reflexivity.
      * rewrite (ok_acc radix 65535 (c :: d :: t) Hr). reflexivity.
Qed.

(** The signed reader: the number when it lies in [-32768, 32767], as its 16-bit pattern. *)
Lemma parse_i16_spec radix s : 1 <= radix ->
  ok_of (parse_i16 radix s) =
  match numeral radix s with
  | Some z => if ((-32768 <=? z) && (z <=? 32767))%Z then Some (Z.to_N (z mod 65536)) else None
  | None => None
  end.
Proof.
  intros Hr. destruct s as [|c r]; [reflexivity|]. cbn [parse_i16 numeral].
  assert (Pos : forall ds, ok_of (acc_digits radix 32767 ds 0) =
                           match option_map Z.of_N (match ds with [] => None | _ => digits_val radix ds 0 end) with
                           | Some z => if ((-32768 <=? z) && (z <=? 32767))%Z then Some (Z.to_N (z mod 65536)) else None
                           | None => None
                           end \/ ds = []).
  { intros ds. destruct ds as [|x xs]; [right; reflexivity|left].
    rewrite (ok_acc radix 32767 (x :: xs) Hr).
    destruct (digits_val radix (x :: xs) 0) as [v|]; cbn [option_map]; [|reflexivity].
    destruct (v <=? 32767) eqn:E.
    - apply N.leb_le in E. assert (E2 : ((-32768 <=? Z.of_N v) && (Z.of_N v <=? 32767))%Z = true) by lia.
      rewrite E2. f_equal. rewrite Z.mod_small by lia. lia.
    - apply N.leb_gt in E. assert (E2 : ((-32768 <=? Z.of_N v) && (Z.of_N v <=? 32767))%Z = false) by lia.
      rewrite E2. reflexivity. }
  destruct r as [|d t].
  - (* one character *)
    destruct (c =? 43) eqn:E1; cbn [orb unsigned_numeral option_map]; [reflexivity|].
    destruct (c =? 45) eqn:E2; cbn [orb option_map]; [reflexivity|].
    destruct (Pos [c]) as [->|K]; [|discriminate]. reflexivity.
  - destruct (c =? 43) eqn:E1.
    + destruct (Pos (d :: t)) as [->|K]; [|discriminate]. reflexivity.
    + destruct (c =? 45) eqn:E2.
      * (* negative *)
        cbn [unsigned_numeral].
        pose proof (ok_acc radix 32768 (d :: t) Hr) as K.
        destruct (acc_digits radix 32768 (d :: t) 0) as [m|e]; cbn [ok_of] in K |- *.
        -- destruct (digits_val radix (d :: t) 0) as [v|]; [|discriminate].
           destruct (v <=? 32768) eqn:Ev; [|discriminate]. inversion K; subst v. apply N.leb_le in Ev.
           cbn [option_map].
           assert (E3 : ((-32768 <=? - Z.of_N m) && (- Z.of_N m <=? 32767))%Z = true) by lia. rewrite E3. f_equal.
           destruct (N.eq_dec m 0) as [->|Hm]; [reflexivity|].
           rewrite N.mod_small by lia.
           replace (- Z.of_N m)%Z with (65536 - Z.of_N m + (-1) * 65536)%Z by lia.
           rewrite Z.mod_add by lia. rewrite Z.mod_small by lia. lia.
        -- destruct (digits_val radix (d :: t) 0) as [v|]; cbn [option_map]; [|reflexivity].
           destruct (v <=? 32768) eqn:Ev; [discriminate|]. apply N.leb_gt in Ev.
           assert (E3 : ((-32768 <=? - Z.of_N v) && (- Z.of_N v <=? 32767))%Z = false) by lia. rewrite E3. reflexivity.
      * destruct (Pos (c :: d :: t)) as [->|K]; [|discriminate]. reflexivity.
Qed.

(** The lexer's reading of a literal's digits is the literal's value. *)
Theorem parse_lit_value radix s : 1 <= radix -> parse_lit radix s = lit_value radix s.
Proof.
  intros Hr. unfold parse_lit, lit_value.
  pose proof (parse_i16_spec radix s Hr) as Hi. pose proof (parse_u16_spec radix s Hr) as Hu.
  destruct (parse_i16 radix s) as [v|e]; cbn [ok_of] in Hi.
  - destruct (numeral radix s) as [z|]; [|discriminate].
    destruct ((-32768 <=? z) && (z <=? 32767))%Z eqn:E; [|discriminate].
    assert (E2 : ((-32768 <=? z) && (z <=? 65535))%Z = true) by lia. rewrite E2. exact Hi.
  - destruct (parse_u16 radix s) as [v|e2]; cbn [ok_of] in Hu.
    + (* unsigned accepted: the number is in 32768..65535 *)
      destruct s as [|c r]; [discriminate|]. cbn [numeral] in *.
      destruct (c =? 45); [discriminate|].
      destruct (c =? 43);
        (match type of Hu with context [match ?u with _ => _ end] => destruct u as [n|] eqn:En end; [|discriminate];
         cbn [option_map] in *;
         destruct (n <=? 65535) eqn:E1; [|discriminate]; inversion Hu; subst n; apply N.leb_le in E1;
         destruct ((-32768 <=? Z.of_N v) && (Z.of_N v <=? 32767))%Z eqn:E2; [discriminate|];
         assert (E3 : ((-32768 <=? Z.of_N v) && (Z.of_N v <=? 65535))%Z = true) by lia; rewrite E3; f_equal;
         rewrite Z.mod_small by lia; lia).
    + (* both refuse: not a numeral, or outside [-32768, 65535] *)
      destruct s as [|c r]; [reflexivity|]. cbn [numeral] in *.
      destruct (c =? 45) eqn:E45.
      * destruct (c =? 43) eqn:E43; [apply N.eqb_eq in E45; apply N.eqb_eq in E43; rewrite E45 in E43; discriminate E43|].
        destruct (unsigned_numeral radix r) as [n|]; cbn [option_map] in *; [|reflexivity].
        destruct ((-32768 <=? - Z.of_N n) && (- Z.of_N n <=? 32767))%Z eqn:E2; [discriminate|].
        assert (E3 : ((-32768 <=? - Z.of_N n) && (- Z.of_N n <=? 65535))%Z = false) by lia. rewrite E3. reflexivity.
      * destruct (c =? 43);
          (match type of Hu with context [match ?u with _ => _ end] => destruct u as [n|] eqn:En end; cbn [option_map] in *; [|reflexivity];
           destruct (n <=? 65535) eqn:E1; [discriminate|]; apply N.leb_gt in E1;
           assert (E3 : ((-32768 <=? Z.of_N n) && (Z.of_N n <=? 65535))%Z = false) by lia; rewrite E3; reflexivity).
Qed.

(** Examples: one operand, five spellings; the extremes; what is not a literal. *)
Example lit_examples :
  lit_value 10 (str "-1") = Some 65535 /\ lit_value 16 (str "FFFF") = Some 65535 /\ lit_value 16 (str "-1") = Some 65535 /\
  lit_value 16 (str "ffFF") = Some 65535 /\ lit_value 10 (str "65535") = Some 65535 /\
  lit_value 10 (str "-32768") = Some 32768 /\ lit_value 16 (str "-8000") = Some 32768 /\ lit_value 10 (str "+007") = Some 7 /\
  lit_value 10 (str "65536") = None /\ lit_value 10 (str "-32769") = None /\ lit_value 16 (str "-8001") = None /\
  lit_value 10 (str "") = None /\ lit_value 10 (str "-") = None /\ lit_value 10 (str "1a") = None /\ lit_value 16 (str "+-1") = None.
Proof. vm_compute. repeat split. Qed.

(* ------------------------------------------------------------------ *)
(** * Literal words *)

Lemma parse_lit_cases radix ds :
  match parse_i16 radix ds with
  | POk v => parse_lit radix ds = Some v
  | PErr _ => match parse_u16 radix ds with POk v => parse_lit radix ds = Some v | PErr _ => parse_lit radix ds = None end
  end.
Proof. unfold parse_lit. destruct (parse_i16 radix ds); [reflexivity|]. destruct (parse_u16 radix ds); reflexivity. Qed.

Lemma dec_lit pre ds v : forallb (fun x => negb (is_token_end x)) ds = true ->
  (dec pre ds = LexTok (KLit (LDec v)) (pre ++ ds) [] <-> lit_value 10 ds = Some v).
Proof.
  intros Hn. rewrite <- (parse_lit_value 10 ds) by lia. unfold dec. rewrite (tw_of_all _ ds Hn).
  pose proof (parse_lit_cases 10 ds) as K.
  destruct (parse_i16 10 ds) as [v1|e1].
  - rewrite K. split; intros H; inversion H; reflexivity.
  - destruct (parse_u16 10 ds) as [v2|e2]; rewrite K; split; intros H; inversion H; reflexivity.
Qed.

Lemma hex_lit pre ds v : forallb (fun x => negb (is_token_end x)) ds = true ->
  (hex pre ds = LexTok (KLit (LHex v)) (pre ++ ds) [] <-> lit_value 16 ds = Some v).
Proof.
  intros Hn. rewrite <- (parse_lit_value 16 ds) by lia. unfold hex. rewrite (tw_of_all _ ds Hn).
  pose proof (parse_lit_cases 16 ds) as K.
  destruct (parse_i16 16 ds) as [v1|e1].
  - rewrite K. split; intros H; inversion H; reflexivity.
  - destruct (parse_u16 16 ds) as [v2|[]]; rewrite K; split; intros H; inversion H; reflexivity.
Qed.

Lemma lex_word_tok feat w k : lex_word feat w = Some k <-> advance_token feat w = Some (LexTok k w []).
Proof.
  split; [apply lex_word_consumed|]. intros H. unfold lex_word. rewrite H. reflexivity.
Qed.

(** `#digits` is the decimal literal of value v exactly when the digits denote v. *)
Theorem dec_word feat ds v : forallb nte ds = true ->
  (lex_word feat (35 :: ds) = Some (KLit (LDec v)) <-> lit_value 10 ds = Some v).
Proof.
  intros Hn. rewrite lex_word_tok. change (advance_token feat (35 :: ds)) with (Some (dec [35] ds)).
  rewrite <- (dec_lit [35] ds v Hn). cbn [app]. split; [intros H; injection H as H; exact H|intros ->; reflexivity].
Qed.

(** `xdigits`, `Xdigits`, `0xdigits`, `0Xdigits` are the hexadecimal literal of value v exactly when the digits denote v. *)
Theorem hex_word feat pre ds v : forallb nte ds = true ->
  In pre [[120]; [88]; [48; 120]; [48; 88]] ->
  (lex_word feat (pre ++ ds) = Some (KLit (LHex v)) <-> lit_value 16 ds = Some v).
Proof.
  intros Hn Hp. rewrite lex_word_tok.
  assert (E : advance_token feat (pre ++ ds) = Some (hex pre ds)).
  { cbn [In] in Hp. destruct Hp as [<-|[<-|[<-|[<-|[]]]]]; reflexivity. }
  rewrite E, <- (hex_lit pre ds v Hn). split; [intros H; injection H as H; exact H|intros ->; reflexivity].
Qed.

(** Two literal words of the same value are the same operand, whatever their radix and spelling. *)
Corollary literal_words_sim feat w w' v :
  (lex_word feat w = Some (KLit (LHex v)) \/ lex_word feat w = Some (KLit (LDec v))) ->
  (lex_word feat w' = Some (KLit (LHex v)) \/ lex_word feat w' = Some (KLit (LDec v))) ->
  word_sim feat w w'.
Proof.
  intros [H|H] [H'|H']; eexists; eexists; (split; [exact H|split; [exact H'|split; [reflexivity|cbn; discriminate]]]).
Qed.

Example literal_word_examples :
  lex_word false (str "#-12") = Some (KLit (LDec 65524)) /\ lex_word false (str "xFFF4") = Some (KLit (LHex 65524)) /\
  lex_word false (str "0x-C") = Some (KLit (LHex 65524)) /\ word_sim false (str "#-12") (str "X-c").
Proof.
  repeat split; try (vm_compute; reflexivity).
  apply (literal_words_sim false _ _ 65524); [right|left]; vm_compute; reflexivity.
Qed.

Definition s_m1 : list N := str "-1".
Definition s_m8001 : list N := str "-8001".
Definition s_65536 : list N := str "65536".
Example lit_examples2 :
  lit_value 10 s_m1 = Some 65535 /\ lit_value 16 s_m1 = Some 65535 /\ lit_value 16 s_m8001 = None /\ lit_value 10 s_65536 = None.
Proof. vm_compute. repeat split. Qed.
