(* Driver.v — the executable face of the models for the correspondence check.
   Every case is a list of numbers; every result is a list of lists of numbers (one per output
   line).  The encodings are defined here, in Coq, and mirrored by the Rust harness; the OCaml
   driver only reads and prints numbers. *)
From Coq Require Import FMapPositive.
From Lace Require Import Word Machine Isa Vm RunProofs.
From Lace Require Asm Cli Watch Feat CliFile CliWrite.

(* ------------------------------------------------------------------ *)
(** * Helpers *)

Fixpoint take (n : nat) (l : list N) : list N * list N :=
  match n, l with
  | O, _ => ([], l)
  | S n', x :: l' => let '(a, b) := take n' l' in (x :: a, b)
  | S _, [] => ([], [])
  end.

Definition hdN (l : list N) : N := match l with x :: _ => x | [] => 0 end.
Definition tlN (l : list N) : list N := match l with _ :: t => t | [] => [] end.

Fixpoint pairs (l : list N) : list (N * N) :=
  match l with
  | a :: b :: r => (a, b) :: pairs r
  | _ => []
  end.

Fixpoint insert_sorted (x : N * N) (l : list (N * N)) : list (N * N) :=
  match l with
  | [] => [x]
  | y :: r => if fst x <=? fst y then x :: l else y :: insert_sorted x r
  end.
Definition sort_pairs (l : list (N * N)) : list (N * N) := fold_right insert_sorted [] l.

(** Memory used by single-instruction cases: every address holds a value that depends on the
    address, so that a read from a wrong address shows; about one low byte in 256 is zero, so
    that strings end. *)
Definition mem_hash (seed a : N) : N :=
  let h := ((a + seed) * 25173 + 13849) mod 65536 in
  N.lxor h (h / 256).

(** Cells whose final value differs from what [m0] held, sorted by address. *)
Definition mem_diff (m0 m : mem) : list N :=
  let cells := PositiveMap.elements (mov m) in
  let changed := filter (fun kv => negb (snd kv =? mget m0 (Pos.pred_N (fst kv)))) cells in
  let l := sort_pairs (map (fun kv => (Pos.pred_N (fst kv), snd kv)) changed) in
  N.of_nat (length l) :: flat_map (fun av => [fst av; snd av]) l.

Definition enc_state (st0 st : state) : list N :=
  [s_pc st; s_cc st] ++ regs_list (s_regs st)
  ++ [N.of_nat (length (s_out st))] ++ rev_append (s_out st) []
  ++ [N.of_nat (length (s_inp st))]
  ++ mem_diff (s_mem st0) (s_mem st).

Definition enc_result (st0 : state) (r : result) : list N :=
  match r with
  | Running st => 0 :: 0 :: enc_state st0 st
  | Exited c st => 1 :: c :: enc_state st0 st
  | Panicked st => 2 :: 0 :: enc_state st0 st
  | Diverged => [3]
  end.

Definition mk_regs (l : list N) : regs :=
  match l with
  | [a; b; c; d; e; f; g; h] => mkRegs a b c d e f g h
  | _ => mkRegs 0 0 0 0 0 0 0 0
  end.

(* ------------------------------------------------------------------ *)
(** * C02: one instruction on a given state, for every word in a range.

    case  = feat seed pc cc r0..r7 orig wlo whi nov (addr val)*nov ninp byte*ninp
    lines = one per word w in [wlo, whi]:  w :: enc_result *)

Definition c02_state (args : list N) : bool * state * N * N :=
  let feat := negb (hdN args =? 0) in
  let seed := hdN (tlN args) in
  let pc := hdN (tlN (tlN args)) in
  let cc := hdN (tlN (tlN (tlN args))) in
  let '(rl, rest) := take 8 (tlN (tlN (tlN (tlN args)))) in
  let orig := hdN rest in
  let wlo := hdN (tlN rest) in
  let whi := hdN (tlN (tlN rest)) in
  let nov := hdN (tlN (tlN (tlN rest))) in
  let '(ovl, rest2) := take (N.to_nat (2 * nov)) (tlN (tlN (tlN (tlN rest)))) in
  let ninp := hdN rest2 in
  let '(inp, _) := take (N.to_nat ninp) (tlN rest2) in
  let m0 := fold_left (fun m av => mset m (fst av) (snd av)) (pairs ovl)
                      (mem_of_fun (mem_hash seed)) in
  (feat, mkState (mk_regs rl) pc cc m0 orig inp [], wlo, whi).

Fixpoint c02_words (n : nat) (w : N) (f : N -> list N) : list (list N) :=
  match n with
  | O => []
  | S n' => (w :: f w) :: c02_words n' (w + 1) f
  end.

Definition run_c02 (spec : bool) (args : list N) : list (list N) :=
  let '(feat, st0, wlo, whi) := c02_state args in
  c02_words (N.to_nat (whi + 1 - wlo)) wlo
    (fun w => enc_result st0 (if spec then step feat (decode w) st0 else execute feat w st0)).

(* ------------------------------------------------------------------ *)
(** * C03: load an image and run it under a fetch budget.

    case  = feat fuel nraw raw*nraw ninp byte*ninp
    line  = kind code [state relative to an all-zero memory] nfetch tracehash
            kind: 0 finished, 1 exit, 2 panic, 3 hung, 4 out of fuel, 5 rejected by the loader *)

Definition trace_hash (tr : list (N * N)) : N :=
  fold_right (fun aw h => (h * 31 + fst aw * 65536 + snd aw) mod 2147483647) 7 tr.

Definition zero_state : state := mkState (mkRegs 0 0 0 0 0 0 0 0) 0 0 mem_zero 0 [] [].

Definition enc_vm (r : vm_result * list (N * N)) : list N :=
  let '(res, tr) := r in
  let tail := [N.of_nat (length tr); trace_hash tr] in
  match res with
  | VFinished st => 0 :: 0 :: enc_state zero_state st ++ tail
  | VExit c st => 1 :: c :: enc_state zero_state st ++ tail
  | VPanic st => 2 :: 0 :: enc_state zero_state st ++ tail
  | VHung => [3]
  | VOutOfFuel st => 4 :: 0 :: enc_state zero_state st ++ tail
  end.

Definition run_c03 (spec : bool) (args : list N) : list (list N) :=
  let feat := negb (hdN args =? 0) in
  let fuel := N.to_nat (hdN (tlN args)) in
  let nraw := hdN (tlN (tlN args)) in
  let '(raw, rest) := take (N.to_nat nraw) (tlN (tlN (tlN args))) in
  let ninp := hdN rest in
  let '(inp, _) := take (N.to_nat ninp) (tlN rest) in
  if spec then
    match load raw inp with
    | None => [[5; 238]]
    | Some st => let r := run feat fuel st [] in [enc_vm (RunProofs.to_vm (fst r), snd r)]
    end
  else
    match from_raw raw inp with
    | LoadExit c => [[5; c]]
    | Loaded st => [enc_vm (vm_run feat fuel st [])]
    end.

(* ------------------------------------------------------------------ *)
(** * ASM: assemble a sequence of sources in one process (C01, C04, C05, C18, C19).

    case  = feat nsrc (reset nchars char*nchars)*nsrc
    lines = one per source:
            0 has_orig orig nwords word* nbps (addr predefined)* nspans (offs len)*     accepted
            1 diag span_start span_len                                                   rejected
            2 why                                                                        panic *)

Definition enc_diag (d : Asm.diag) : N :=
  match d with
  | Asm.E_lex_dir => 0 | Asm.E_lex_str => 1 | Asm.E_lex_bad_lit => 2 | Asm.E_lex_unknown => 3
  | Asm.E_lex_stack => 4 | Asm.E_pre_bad_lit => 5 | Asm.E_pre_no_str => 6 | Asm.E_dup_label => 7
  | Asm.E_unexpected => 8 | Asm.E_eof => 9 | Asm.E_lit_range => 8 | Asm.E_too_long => 11
  | Asm.E_orig_twice => 12 | Asm.E_label_not_found => 13 | Asm.E_offset_range => 14
  end.

Definition enc_image (r : Asm.res Asm.image) : list N :=
  match r with
  | Asm.Ok im =>
      (0 :: match Asm.i_orig im with Some o => 1 :: o :: nil | None => 0 :: 0 :: nil end)
      ++ [N.of_nat (length (Asm.i_words im))] ++ Asm.i_words im
      ++ [N.of_nat (length (Asm.i_bps im))]
      ++ flat_map (fun b : N * bool => [fst b; if snd b then 1 else 0]) (Asm.i_bps im)
      ++ [N.of_nat (length (Asm.i_spans im))]
      ++ flat_map (fun s : N * N => [fst s; snd s]) (Asm.i_spans im)
  | Asm.Err d a n => [1; enc_diag d; a; n]
  | Asm.Bad w => [2; w]
  end.

Fixpoint run_asm_seq (feat : bool) (n : nat) (args : list N) (sym : Asm.symtab) : list (list N) :=
  match n with
  | O => []
  | S n' =>
      let reset := negb (hdN args =? 0) in
      let nch := hdN (tlN args) in
      let '(src, rest) := take (N.to_nat nch) (tlN (tlN args)) in
      let '(r, sym') := Asm.assemble feat (if reset then [] else sym) src in
      enc_image r :: run_asm_seq feat n' rest sym'
  end.

Definition run_asm (args : list N) : list (list N) :=
  let feat := negb (hdN args =? 0) in
  run_asm_seq feat (N.to_nat (hdN (tlN args))) (tlN (tlN args)) [].

(* ------------------------------------------------------------------ *)
(** * CLI-level cases (C06, C07, C08)

    OBJ  = feat nchars char*            -> exit nbytes byte*           (`lace compile` verdict + object bytes)
    LC3  = feat fuel nbytes byte* ninp inp*   -> as C03 (loader for .lc3/.obj files, then run); 5 c = rejected
    SRC  = feat fuel nchars char* ninp inp*   -> 6 exit = assembly failed; otherwise as C03 *)

Definition run_obj (args : list N) : list (list N) :=
  let feat := negb (hdN args =? 0) in
  let '(src, _) := take (N.to_nat (hdN (tlN args))) (tlN (tlN args)) in
  match Cli.assembles feat src with
  | Asm.Ok im => let bs := Cli.compile_bytes im in [0 :: N.of_nat (length bs) :: bs]
  | Asm.Err _ _ _ => [[1; 0]]
  | Asm.Bad _ => [[101; 0]]
  end.

(** OBJB = feat nbytes bytes...: the source as the BYTES of its file (CliFile.v); result as OBJ *)
Definition run_objb (args : list N) : list (list N) :=
  let feat := negb (hdN args =? 0) in
  let '(bytes, _) := take (N.to_nat (hdN (tlN args))) (tlN (tlN args)) in
  let '(e, bs) := CliFile.object_of_file feat bytes in
  [e :: N.of_nat (length bs) :: bs].

(** WRITE = kind (0 absent, 1 regular, 2 link to a regular file, 3 dangling link, 4 device/pipe, 5 directory),
    temp_refused create_refused has_stop stop_after takes_no_data rename_refused;
    result: 0 WOk | 1 WCreateFail | 2 WWriteFailSpecial | 3 WTempFail | 4 n WWriteFailTruncated  ([CliWrite.outcome_of]) *)
Definition run_write (args : list N) : list (list N) :=
  let nth k := List.nth k args 0 in
  let b k := negb (nth k =? 0) in
  let kind := match nth 0%nat with
              | 0 => CliWrite.KAbsent | 1 => CliWrite.KRegular | 2 => CliWrite.KLinkRegular
              | 3 => CliWrite.KDangling | 4 => CliWrite.KSpecial | _ => CliWrite.KDir
              end in
  let fl := CliWrite.mkFaults (b 1%nat) (b 2%nat) (if b 3%nat then Some (N.to_nat (nth 4%nat)) else None) (b 5%nat) (b 6%nat) in
  match CliWrite.outcome_of kind fl with
  | Cli.WOk => [[0]]
  | Cli.WCreateFail => [[1]]
  | Cli.WWriteFailSpecial => [[2]]
  | Cli.WTempFail => [[3]]
  | Cli.WWriteFailTruncated n => [[4; N.of_nat n]]
  end.

(** WATCH = feat nversions, then for each version: nchars and its chars; result: one verdict per version
    (`lace watch`: Watch.watch on the versions in order) *)
Fixpoint take_versions (n : nat) (args : list N) : list (list N) :=
  match n with
  | O => []
  | S n' => let '(src, rest) := take (N.to_nat (hdN args)) (tlN args) in src :: take_versions n' rest
  end.

Definition run_watch (args : list N) : list (list N) :=
  let feat := negb (hdN args =? 0) in
  [Watch.watch feat [] (take_versions (N.to_nat (hdN (tlN args))) (tlN (tlN args)))].

(** FEAT = nchars and the chars of the value given to -f / --features; result 0 = accepted, extension off,
    1 = accepted, extension on, 2 = refused ([Feat.parse_features]) *)
Definition run_feat (args : list N) : list (list N) :=
  let '(s, _) := take (N.to_nat (hdN args)) (tlN args) in
  [[match Feat.parse_features s with Some false => 0 | Some true => 1 | None => 2 end]].

(** FEAT2 = has_pre npre chars.. has_post npost chars..: the value written before the sub-command and the one written
    after it (each may be absent); result as FEAT ([Feat.command_line]) *)
Definition run_feat2 (args : list N) : list (list N) :=
  let has_pre := negb (hdN args =? 0) in
  let '(pre, rest) := take (N.to_nat (hdN (tlN args))) (tlN (tlN args)) in
  let has_post := negb (hdN rest =? 0) in
  let '(post, _) := take (N.to_nat (hdN (tlN rest))) (tlN (tlN rest)) in
  [[match Feat.command_line (if has_pre then Some pre else None) (if has_post then Some post else None) with
    | Some false => 0 | Some true => 1 | None => 2 end]].

Definition run_lc3 (args : list N) : list (list N) :=
  let feat := negb (hdN args =? 0) in
  let fuel := N.to_nat (hdN (tlN args)) in
  let '(bytes, rest) := take (N.to_nat (hdN (tlN (tlN args)))) (tlN (tlN (tlN args))) in
  let '(inp, _) := take (N.to_nat (hdN rest)) (tlN rest) in
  match Cli.load_file bytes inp with
  | LoadExit c => [[5; c]]
  | Loaded st => [enc_vm (vm_run feat fuel st [])]
  end.

Definition run_src (args : list N) : list (list N) :=
  let feat := negb (hdN args =? 0) in
  let fuel := N.to_nat (hdN (tlN args)) in
  let '(src, rest) := take (N.to_nat (hdN (tlN (tlN args)))) (tlN (tlN (tlN args))) in
  let '(inp, _) := take (N.to_nat (hdN rest)) (tlN rest) in
  match Cli.run_cmd feat src inp fuel with
  | Cli.RunAsmError c => [[6; c]]
  | Cli.RunLoadExit c => [[5; c]]
  | Cli.RunLoaded r => [enc_vm r]
  end.
