(* DriverEdit.v -- the executable face of the line-editor MODEL (Edit.v) and SPEC (EditSpec.v)
   for the C20 correspondence check.  Mirrored by harness/src/edit.rs.

   case  = mode dbg draw nhist text^nhist nkeys key^nkeys        with text = len char^len
           mode 0: MODEL, mode 1: SPEC (same lines), dbg: debug_assert! active (debug profile),
           draw: only for the harness (draw the prompt or not)
         | 2 cp...                     character classes: one line [cp ws alnum len_utf8] per cp
   key   = 0 Enter 1 Backspace 2 Delete 3 Left 4 Right 5 Up 6 Down 7 Ctrl+Left 8 Ctrl+Right,
           16 + c = the character with code point c
   lines = one for the initial state and one after EACH key:
             0 cursor focus histlen nsub text^nsub current-text buffer-text
           or [2] (panic) / [3] (out of fuel) and nothing more, then
           9 nhist text^nhist         the final history *)
From Coq Require Import NArith List Bool Arith.
From Lace Require Import EditSpec Edit.
Import ListNotations.
Open Scope N_scope.

(** char::is_whitespace — Unicode White_Space, complete. *)
Definition ws_table (c : N) : bool :=
  ((9 <=? c) && (c <=? 13)) || (c =? 32) || (c =? 133) || (c =? 160) || (c =? 5760)
  || ((8192 <=? c) && (c <=? 8202)) || (c =? 8232) || (c =? 8233) || (c =? 8239) || (c =? 8287)
  || (c =? 12288).

(** char::is_alphanumeric (Alphabetic or Nd/Nl/No) — exact on U+0000..U+00FF, basic Greek,
    the CJK block U+4E00..U+9FFF and the emoticon block; the generator draws characters only
    from there and every run compares this table with Rust's on the whole pool (mode 2). *)
Definition in_range (lo hi c : N) : bool := (lo <=? c) && (c <=? hi).
Definition alnum_table (c : N) : bool :=
  in_range 48 57 c || in_range 65 90 c || in_range 97 122 c
  || (c =? 170) || (c =? 178) || (c =? 179) || (c =? 181) || (c =? 185) || (c =? 186)
  || in_range 188 190 c || in_range 192 214 c || in_range 216 246 c || in_range 248 255 c
  || in_range 913 929 c || in_range 931 937 c || in_range 945 969 c
  || in_range 19968 40959 c.

Definition e_hd (l : list N) : N := match l with x :: _ => x | [] => 0 end.
Definition e_tl (l : list N) : list N := match l with _ :: t => t | [] => [] end.

Fixpoint e_take (n : nat) (l : list N) : list N * list N :=
  match n, l with
  | O, _ => ([], l)
  | S n', x :: l' => let '(a, b) := e_take n' l' in (x :: a, b)
  | S _, [] => ([], [])
  end.

(** n length-prefixed texts *)
Fixpoint e_texts (n : nat) (l : list N) : list (list N) * list N :=
  match n with
  | O => ([], l)
  | S n' =>
      let '(s, rest) := e_take (N.to_nat (e_hd l)) (e_tl l) in
      let '(ss, rest') := e_texts n' rest in
      (s :: ss, rest')
  end.

Definition key_of (k : N) : key :=
  if k =? 0 then KEnter else if k =? 1 then KBackspace else if k =? 2 then KDelete
  else if k =? 3 then KLeft else if k =? 4 then KRight else if k =? 5 then KUp
  else if k =? 6 then KDown else if k =? 7 then KCtrlLeft else if k =? 8 then KCtrlRight
  else KChar (k - 16).

Definition enc_text (s : list N) : list N := N.of_nat (length s) :: s.

Definition enc_obs (t : term) (sub : option (list (list N))) : list N :=
  let subs := match sub with Some s => s | None => [] end in
  [0; N.of_nat (t_vc t); N.of_nat (t_idx t); N.of_nat (length (t_hist t)); N.of_nat (length subs)]
  ++ flat_map enc_text subs ++ enc_text (current t) ++ enc_text (t_buf t).

Definition enc_hist (t : term) : list N :=
  9 :: N.of_nat (length (t_hist t)) :: flat_map enc_text (t_hist t).

Fixpoint c20_model (dbg : bool) (t : term) (ks : list key) : list (list N) :=
  match ks with
  | [] => [enc_hist t]
  | k :: r =>
      match session_key ws_table alnum_table dbg t k with
      | Ok (t1, sub) => enc_obs t1 sub :: c20_model dbg t1 r
      | Panic => [[2]; enc_hist t]
      | OutOfFuel => [[3]; enc_hist t]
      end
  end.

Fixpoint c20_spec (e : ed) (ks : list key) : list (list N) :=
  match ks with
  | [] => [enc_hist (term_of_ed e)]
  | k :: r =>
      let '(e1, sub) := spec_key ws_table alnum_table e k in
      enc_obs (term_of_ed e1) sub :: c20_spec e1 r
  end.

Definition run_c20 (args : list N) : list (list N) :=
  let mode := e_hd args in
  if mode =? 2 then
    map (fun c => [c; if ws_table c then 1 else 0; if alnum_table c then 1 else 0;
                   N.of_nat (len_utf8 c)]) (e_tl args)
  else
    let dbg := negb (e_hd (e_tl args) =? 0) in
    let rest := e_tl (e_tl (e_tl args)) in
    let '(h, rest1) := e_texts (N.to_nat (e_hd rest)) (e_tl rest) in
    let '(ks, _) := e_take (N.to_nat (e_hd rest1)) (e_tl rest1) in
    let keys := map key_of ks in
    if mode =? 1 then
      enc_obs (term_of_ed (spec_start h)) None :: c20_spec (spec_start h) keys
    else
      enc_obs (term_start h) None :: c20_model dbg (term_start h) keys.
