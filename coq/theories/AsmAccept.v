(* AsmAccept.v — THEOREM: a statement is accepted if and only if every operand fits its field.

   [shape] is the SPEC: for every instruction, trap form and `.orig`, the list of operand positions
   with the field each must fit.  [fits] says when a token fits a position: a register where a
   register is due; a literal (any radix) whose value passes the range test of the field; a label
   where a label may stand.  The statement parsers of Asm.v accept exactly the token sequences that
   fit, consume exactly those tokens, never panic, and reject everything else. *)
From Coq Require Import List NArith Bool Lia.
From Lace Require Import Word Machine Isa Vm Asm.
Import ListNotations.
Open Scope N_scope.

Inductive opspec :=
| OReg                      (* a register *)
| ORegOrImm5                (* a register or a 5-bit signed literal *)
| OLit (b : bits)           (* a literal that fits [b] *)
| OLabelOrLit (nbits : N)   (* a label, or a literal PC offset that fits [nbits] signed *)
| OLabel.                   (* a label *)

Definition shape (k : instr_kind) : list opspec :=
  match k with
  | IAdd | IAnd => [OReg; OReg; ORegOrImm5]
  | IBr _ => [OLabelOrLit 9]
  | IJmp | IJsrr | IPush | IPop => [OReg]
  | IJsr => [OLabelOrLit 11]
  | ILd | ILdi | ILea | ISt | ISti => [OReg; OLabelOrLit 9]
  | ILdr | IStr => [OReg; OReg; OLit (Signed 6)]
  | INot => [OReg; OReg]
  | IRet | IRti | IRets => []
  | ICall => [OLabel]
  end.

Definition trap_shape (k : trap_kind) : list opspec :=
  match k with TGeneric => [OLit (Unsigned 8)] | TNamed _ => [] end.

Definition lit_val (k : tkind) : option N :=
  match k with KLit (LHex v) | KLit (LDec v) => Some v | _ => None end.

Definition fits (o : opspec) (t : token) : bool :=
  match o with
  | OReg => match tk t with KReg _ => true | _ => false end
  | ORegOrImm5 =>
      match tk t with
      | KReg _ => true
      | k => match lit_val k with Some v => check_range (Signed 5) v | None => false end
      end
  | OLit b => match lit_val (tk t) with Some v => check_range b v | None => false end
  | OLabelOrLit n =>
      match tk t with
      | KLabel => true
      | k => match lit_val k with Some v => check_range (Signed n) v | None => false end
      end
  | OLabel => match tk t with KLabel => true | _ => false end
  end.

Fixpoint fits_all (os : list opspec) (toks : list token) : bool :=
  match os with
  | [] => true
  | o :: os' => match toks with [] => false | t :: r => fits o t && fits_all os' r end
  end.

(** What it means for a reader [f] of one operand / of a whole operand list. *)
Definition spec1 {A} (o : opspec) (f : res (A * pst)) (toks : list token) : Prop :=
  match f with
  | Ok (_, (r, te')) => exists t, toks = t :: r /\ fits o t = true /\ te' = tend t
  | Err _ _ _ => match toks with [] => True | t :: _ => fits o t = false end
  | Bad _ => False
  end.

(** End of the last token read ([te]: the end recorded before). *)
Definition last_end (read : list token) (te : N) : N := fold_left (fun _ t => tend t) read te.

Definition specL {A} (os : list opspec) (f : res (A * pst)) (toks : list token) (te : N) : Prop :=
  match f with
  | Ok (_, (r, te')) => fits_all os toks = true /\ r = skipn (length os) toks /\
                        te' = last_end (firstn (length os) toks) te
  | Err _ _ _ => fits_all os toks = false
  | Bad _ => False
  end.

Lemma chain {A B} o os (f : res (A * pst)) toks te (g : A * pst -> res (B * pst)) :
  spec1 o f toks ->
  (forall a r te', f = Ok (a, (r, te')) -> specL os (g (a, (r, te'))) r te') ->
  specL (o :: os) (bind f g) toks te.
Proof.
  intros H1 H2. destruct f as [[a [r te']]| |]; cbn [bind spec1] in *.
  - destruct H1 as (t & Et & Hf & Ee). subst toks te'. specialize (H2 a r (tend t) eq_refl).
    unfold specL in *. cbn [fits_all length skipn firstn]. rewrite Hf. cbn [andb].
    unfold pst in *. remember (g (a, (r, tend t))) as x eqn:Ex. clear Ex.
    destruct x as [[b [r2 te2]]| |]; [|exact H2|exact H2].
    destruct H2 as (A1 & A2 & A3). split; [exact A1|]. split; [exact A2|]. rewrite A3. reflexivity.
  - unfold specL. cbn [fits_all]. destruct toks as [|t r]; [reflexivity|]. rewrite H1. reflexivity.
  - contradiction.
Qed.

Lemma done_spec {A} (a : A) toks te : specL [] (Ok (a, (toks, te))) toks te.
Proof. cbn. repeat split; reflexivity. Qed.

(* ------------------------------------------------------------------ *)
(** * The operand readers meet their positions *)

Ltac fits_by E := unfold fits, lit_val; rewrite E; try reflexivity.

Lemma expect_reg_spec toks te n : spec1 OReg (expect_reg (toks, te) n) toks.
Proof.
  unfold expect_reg, spec1. cbn [fst]. destruct toks as [|t r]; [exact I|].
  destruct (tk t) eqn:E; cbn [unexpected]; try (fits_by E; fail). exists t. split; [reflexivity|]. split; [fits_by E|reflexivity].
Qed.

Lemma expect_lit_spec b toks te n : spec1 (OLit b) (expect_lit b (toks, te) n) toks.
Proof.
  unfold expect_lit, spec1. cbn [fst]. destruct toks as [|t r]; [exact I|].
  destruct (tk t) as [| | |l| | | | | | |] eqn:E; cbn [unexpected]; try (fits_by E; fail).
  destruct l as [v|v|]; try (fits_by E; fail);
    (destruct (check_range b v) eqn:Ec; [exists t; split; [reflexivity|split; [fits_by E; exact Ec|reflexivity]]|fits_by E; exact Ec]).
Qed.

Lemma expect_label_spec sym toks te n : spec1 OLabel (expect_label sym (toks, te) n) toks.
Proof.
  unfold expect_label, spec1. cbn [fst]. destruct toks as [|t r]; [exact I|].
  destruct (tk t) eqn:E; cbn [unexpected]; try (fits_by E; fail). exists t. split; [reflexivity|]. split; [fits_by E|reflexivity].
Qed.

Lemma expect_lit_or_reg_spec toks te n : spec1 ORegOrImm5 (expect_lit_or_reg (toks, te) n) toks.
Proof.
  pose proof (expect_reg_spec toks te n) as Hr. pose proof (expect_lit_spec (Signed 5) toks te n) as Hl.
  unfold expect_lit_or_reg, spec1 in *. cbn [fst]. destruct toks as [|t r]; [exact I|].
  destruct (tk t) as [| | |l| | | | | | |] eqn:E; cbn [unexpected]; try (fits_by E; fail).
  - destruct (expect_lit (Signed 5) (t :: r, te) n) as [[v [r2 te2]]| |]; [| |contradiction].
    + destruct Hl as (t0 & Et & Hf & He). exists t0. split; [exact Et|]. inversion Et; subst t0. split; [|exact He].
      unfold fits, lit_val in *. rewrite E in *. exact Hf.
    + unfold fits, lit_val in *. rewrite E in *. exact Hl.
  - destruct (expect_reg (t :: r, te) n) as [[v [r2 te2]]| |]; [| |contradiction].
    + destruct Hr as (t0 & Et & Hf & He). exists t0. split; [exact Et|]. inversion Et; subst t0. split; [fits_by E|exact He].
    + exfalso. unfold fits in Hr. rewrite E in Hr. discriminate.
Qed.

Lemma expect_lit_or_label_spec sym line nbits toks te n :
  spec1 (OLabelOrLit nbits) (expect_lit_or_label sym line nbits (toks, te) n) toks.
Proof.
  pose proof (expect_label_spec sym toks te n) as Hr. pose proof (expect_lit_spec (Signed nbits) toks te n) as Hl.
  unfold expect_lit_or_label, spec1 in *. cbn [fst]. destruct toks as [|t r]; [exact I|].
  destruct (tk t) as [| | |l| | | | | | |] eqn:E; cbn [unexpected]; try (fits_by E; fail).
  - destruct (expect_label sym (t :: r, te) n) as [[v [r2 te2]]| |]; [| |contradiction].
    + destruct Hr as (t0 & Et & Hf & He). exists t0. split; [exact Et|]. inversion Et; subst t0. split; [fits_by E|exact He].
    + exfalso. unfold fits in Hr. rewrite E in Hr. discriminate.
  - destruct (expect_lit (Signed nbits) (t :: r, te) n) as [[v [r2 te2]]| |]; [| |contradiction].
    + destruct Hl as (t0 & Et & Hf & He). exists t0. split; [exact Et|]. inversion Et; subst t0. split; [|exact He].
      unfold fits, lit_val in *. rewrite E in *. exact Hf.
    + unfold fits, lit_val in *. rewrite E in *. exact Hl.
Qed.

(* ------------------------------------------------------------------ *)
(** * Statements *)

Ltac rd :=
  first
  [ apply done_spec
  | apply chain;
    [ first [ apply expect_reg_spec | apply expect_lit_spec | apply expect_label_spec
            | apply expect_lit_or_reg_spec | apply expect_lit_or_label_spec ]
    | let a := fresh "a" in let r := fresh "r" in let te := fresh "te" in let E := fresh "E" in
      intros a r te E; cbn beta iota ] ].

(** An instruction is accepted iff its operands fit [shape]; exactly those tokens are consumed;
    everything else is rejected; the parser never panics. *)
Theorem parse_instr_accepts sym line k toks te n :
  specL (shape k) (parse_instr sym line k (toks, te) n) toks te.
Proof. destruct k; cbn [parse_instr shape]; repeat rd. Qed.

Theorem parse_trap_accepts k toks te n : specL (trap_shape k) (parse_trap k (toks, te) n) toks te.
Proof. destruct k; cbn [parse_trap trap_shape]; repeat rd. Qed.

(** The same as an equivalence. *)
Corollary parse_instr_iff sym line k toks te n :
  (exists s p, parse_instr sym line k (toks, te) n = Ok (s, p)) <-> fits_all (shape k) toks = true.
Proof.
  pose proof (parse_instr_accepts sym line k toks te n) as H. unfold specL in H.
  destruct (parse_instr sym line k (toks, te) n) as [[s [r te2]]| |]; split.
  - intros _. apply H.
  - intros _. eexists; eexists; reflexivity.
  - intros (s & p & E). discriminate.
  - intros E. congruence.
  - contradiction.
  - contradiction.
Qed.

(** [fits] in numbers: a literal fits a signed n-bit position iff its value (as a 16-bit
    two's-complement number) lies in [-2^(n-1), 2^(n-1)), an unsigned one iff it is below 2^n. *)
Lemma fits_lit_signed n t v : lit_val (tk t) = Some v ->
  fits (OLit (Signed n)) t = (if v <? 32768 then v <? 2 ^ (n - 1) else 65536 - 2 ^ (n - 1) <=? v).
Proof. intros H. unfold fits. rewrite H. reflexivity. Qed.

Lemma fits_lit_unsigned n t v : lit_val (tk t) = Some v -> fits (OLit (Unsigned n)) t = (v <? 2 ^ n).
Proof. intros H. unfold fits. rewrite H. reflexivity. Qed.

(** What an accepted instruction statement leaves behind: exactly its operands are consumed and
    the recorded end is the end of the last operand (the end recorded before, when it has none). *)
Corollary parse_instr_consumes sym line k toks te n s rest te2 :
  parse_instr sym line k (toks, te) n = Ok (s, (rest, te2)) ->
  rest = skipn (length (shape k)) toks /\ te2 = last_end (firstn (length (shape k)) toks) te.
Proof.
  intros H. pose proof (parse_instr_accepts sym line k toks te n) as K. rewrite H in K. apply K.
Qed.

Corollary parse_trap_consumes k toks te n s rest te2 :
  parse_trap k (toks, te) n = Ok (s, (rest, te2)) ->
  rest = skipn (length (trap_shape k)) toks /\ te2 = last_end (firstn (length (trap_shape k)) toks) te.
Proof.
  intros H. pose proof (parse_trap_accepts k toks te n) as K. rewrite H in K. apply K.
Qed.
