(* Watch.v — MODEL of `lace watch` (main.rs, the handler of a file-change event) and the THEOREM that
   every re-check is a fresh `lace check`.

   The watcher is one process: the symbol table is process state (thread-local in symbol.rs) and
   survives from one re-check to the next; the handler assembles the current contents, prints the
   verdict and then calls reset_state().  What hotwatch delivers (which saves produce an event) is
   outside the model: [versions] is the list of contents the handler was called with. *)
From Coq Require Import List NArith Bool.
From Lace Require Import Word Machine Isa Asm AsmFeat Cli.
Import ListNotations.
Open Scope N_scope.

(** One event: the verdict (0 "no errors found", 1 a diagnostic, 101 a panic) and the table left. *)
Definition recheck (feat : bool) (sym : symtab) (src : list N) : N * symtab :=
  let '(r, sym1) := assemble feat sym src in (exit_of r, reset_state sym1).

Fixpoint watch (feat : bool) (sym : symtab) (versions : list (list N)) : list N :=
  match versions with
  | [] => []
  | v :: rest => let '(e, sym') := recheck feat sym v in e :: watch feat sym' rest
  end.

Lemma recheck_table feat sym src : snd (recheck feat sym src) = [].
Proof. unfold recheck. destruct (assemble feat sym src). reflexivity. Qed.

Lemma recheck_fresh feat src : fst (recheck feat [] src) = check_exit feat src.
Proof. unfold recheck, check_exit, assembles. destruct (assemble feat [] src). reflexivity. Qed.

(** Every re-check — whatever the earlier versions were, valid, rejected by the lexer, rejected
    after labels had been recorded — gives the verdict of `lace check` on that version alone. *)
Theorem watch_is_check feat : forall versions, watch feat [] versions = List.map (check_exit feat) versions.
Proof.
  induction versions as [|v rest IH]; [reflexivity|]. cbn [watch List.map].
  pose proof (recheck_table feat [] v) as Ht. pose proof (recheck_fresh feat v) as Hf.
  destruct (recheck feat [] v) as [e sym']. cbn [fst snd] in *. subst. rewrite IH. reflexivity.
Qed.

(** A handler that skips the reset when the re-check failed (it returns early on the error) is not
    that: a later version that only REFERS to a label of the failed one is accepted. *)
Definition recheck_early_return (feat : bool) (sym : symtab) (src : list N) : N * symtab :=
  let '(r, sym1) := assemble feat sym src in
  match r with Ok _ => (0, reset_state sym1) | _ => (exit_of r, sym1) end.

Fixpoint watch_early_return (feat : bool) (sym : symtab) (versions : list (list N)) : list N :=
  match versions with
  | [] => []
  | v :: rest => let '(e, sym') := recheck_early_return feat sym v in e :: watch_early_return feat sym' rest
  end.

From Coq Require Import String.

(** phantom halt / other add r0 r0  (fails after recording `phantom`), then  br phantom / halt. *)
Definition ex_w1 : list N := str "phantom halt
other add r0 r0
".
Definition ex_w2 : list N := str "br phantom
halt
".

Lemma ex_watch : watch false [] [ex_w1; ex_w2; ex_w1] = [1; 1; 1] /\
                 List.map (check_exit false) [ex_w1; ex_w2; ex_w1] = [1; 1; 1].
Proof. vm_compute. split; reflexivity. Qed.

Lemma early_return_differs : watch_early_return false [] [ex_w1; ex_w2] = [1; 0].
Proof. vm_compute. reflexivity. Qed.
