(* DbgBad.v — THEOREM: a line the command parser rejects has no effect on a debugger session beyond
   the `CommandError` report.

   Two ingredients.  (1) The debugger never reads back what it has written to stderr: every
   function of Dbg.v is a congruence for [eqd], "equal up to d_err".  (2) Inserting [CBad]
   anywhere in a script is invisible up to [eqd]: by induction along the session, with the scripts
   related by "one CBad more at some position, or equal". *)
From Coq Require Import List NArith Bool Lia.
From Lace Require Import Word Machine Isa Vm Asm Dbg DbgProofs.
Import ListNotations.
Open Scope N_scope.

(** Equal up to the stderr lines written so far. *)
Definition eqd (d d' : dbg) : Prop :=
  d_status d = d_status d' /\ d_bps d = d_bps d' /\ d_init d = d_init d' /\ d_icount d = d_icount d'.

Lemma eqd_refl d : eqd d d.
Proof. repeat split. Qed.

Lemma eqd_sym d d' : eqd d d' -> eqd d' d.
Proof. intros (A & B & C & D). repeat split; congruence. Qed.

Lemma eqd_trans a b c : eqd a b -> eqd b c -> eqd a c.
Proof. intros (A & B & C & D) (A' & B' & C' & D'). repeat split; congruence. Qed.

Lemma eqd_shape d d' : eqd d d' ->
  exists s b i ic e e', d = mkDbg s b i e ic /\ d' = mkDbg s b i e' ic.
Proof.
  destruct d as [s b i e ic], d' as [s' b' i' e' ic']. intros (A & B & C & D). cbn in *. subst.
  exists s', b', i', ic', e, e'. split; reflexivity.
Qed.

Lemma eqd_say d d' l l' : eqd d d' -> eqd (say d l) (say d' l').
Proof. intros (A & B & C & D). repeat split; assumption. Qed.

Lemma eqd_say_l d d' l : eqd d d' -> eqd (say d l) d'.
Proof. intros (A & B & C & D). repeat split; assumption. Qed.

Lemma eqd_say_lines d d' ls : eqd d d' -> eqd (say_lines d ls) (say_lines d' ls).
Proof.
  unfold say_lines. revert d d'. induction ls as [|l ls IH]; intros d d' H; cbn [fold_left]; [exact H|].
  apply IH. apply eqd_say. exact H.
Qed.

Lemma eqd_set_status d d' s : eqd d d' -> eqd (set_status d s) (set_status d' s).
Proof. intros (A & B & C & D). repeat split; assumption. Qed.

Lemma eqd_set_bps d d' b : eqd d d' -> eqd (set_bps d b) (set_bps d' b).
Proof. intros (A & B & C & D). repeat split; assumption. Qed.

Lemma eqd_set_icount d d' n : eqd d d' -> eqd (set_icount d n) (set_icount d' n).
Proof. intros (A & B & C & D). repeat split; assumption. Qed.

(** Equal up to stderr AND the instruction counter: what [wait_loop] and [run_command], which
    reset the counter first, need of their argument. *)
Definition eqw (d d' : dbg) : Prop := eqd (set_icount d 0) (set_icount d' 0).

Lemma eqd_eqw d d' : eqd d d' -> eqw d d'.
Proof. intros H. apply eqd_set_icount. exact H. Qed.

(* ------------------------------------------------------------------ *)
(** * Congruence of the debugger's functions *)

Lemma resolve_location_cong env d d' st m : eqd d d' ->
  fst (resolve_location env d st m) = fst (resolve_location env d' st m) /\
  eqd (snd (resolve_location env d st m)) (snd (resolve_location env d' st m)).
Proof.
  intros H. unfold resolve_location. destruct m as [a|off|name off].
  - split; [reflexivity|exact H].
  - destruct (add_address_offset _ _ _); cbn [fst snd]; (split; [reflexivity|]); [exact H|apply eqd_say; exact H].
  - destruct (sym_get _ _); cbn [fst snd]; [|split; [reflexivity|apply eqd_say; exact H]].
    destruct (add_address_offset _ _ _); cbn [fst snd]; (split; [reflexivity|]); [exact H|apply eqd_say; exact H].
Qed.

Lemma expect_userspace_cong d d' st a : eqd d d' ->
  fst (expect_userspace d st a) = fst (expect_userspace d' st a) /\
  eqd (snd (expect_userspace d st a)) (snd (expect_userspace d' st a)).
Proof.
  intros H. unfold expect_userspace. destruct (in_userspace st a); cbn [fst snd]; (split; [reflexivity|]);
    [exact H|apply eqd_say; exact H].
Qed.

Definition eq_res (r r' : cmd_result) : Prop :=
  match r, r' with
  | CmdAction a d st, CmdAction a' d' st' => a = a' /\ st = st' /\ eqd d d'
  | CmdNone d st, CmdNone d' st' => st = st' /\ eqd d d'
  | CmdStop x d, CmdStop x' d' => x = x' /\ eqd d d'
  | _, _ => False
  end.

Ltac pairs :=
  repeat match goal with
  | |- context [resolve_location ?env ?d ?st ?m] =>
      let p := fresh "p" in let E := fresh "E" in
      destruct (resolve_location env d st m) as [? ?] eqn:E
  | |- context [expect_userspace ?d ?st ?a] =>
      let E := fresh "E" in destruct (expect_userspace d st a) as [? ?] eqn:E
  end.

Lemma run_command_cong env c d d' st : eqw d d' ->
  eq_res (run_command env c d st) (run_command env c d' st).
Proof.
  intros H. unfold eqw in H. unfold run_command.
  set (d0 := set_icount d 0) in *. set (d0' := set_icount d' 0) in *. clearbody d0 d0'. clear d d'.
  assert (Hb : d_bps d0 = d_bps d0') by apply H.
  destruct c as [ | |count| | | |l|l v|m|m|text|text| | | | |m|m| ]; cbn [eq_res];
    try (destruct (at_halt st); cbn [eq_res]; (split; [reflexivity|]);
         auto using eqd_say, eqd_set_status; fail);
    try (split; [reflexivity|]; auto using eqd_say, eqd_say_lines, eqd_set_status; fail).
  - (* step *)
    destruct (at_halt st); cbn [eq_res]; [split; [reflexivity|apply eqd_say; exact H]|].
    destruct (is_sig _ _); cbn [eq_res]; (split; [reflexivity|apply eqd_set_status; exact H]).
  - (* step out *)
    destruct (negb (e_feat env)); cbn [eq_res]; [split; [reflexivity|apply eqd_say; exact H]|].
    destruct (at_halt st); cbn [eq_res]; (split; [reflexivity|]); auto using eqd_say, eqd_set_status.
  - (* print *)
    destruct l as [r|m]; cbn [eq_res]; [split; [reflexivity|apply eqd_say; exact H]|].
    destruct (resolve_location_cong env d0 d0' st m H) as (F & S).
    destruct (resolve_location env d0 st m) as [a d1], (resolve_location env d0' st m) as [a' d1'].
    cbn [fst snd] in F, S. subst a'. destruct a; cbn [eq_res]; (split; [reflexivity|]); auto using eqd_say.
  - (* move *)
    destruct l as [r|m]; cbn [eq_res]; [split; [reflexivity|exact H]|].
    destruct (resolve_location_cong env d0 d0' st m H) as (F & S).
    destruct (resolve_location env d0 st m) as [a d1], (resolve_location env d0' st m) as [a' d1'].
    cbn [fst snd] in F, S. subst a'. destruct a as [a|]; cbn [eq_res]; [|split; [reflexivity|exact S]].
    destruct (expect_userspace_cong d1 d1' st a S) as (F2 & S2).
    destruct (expect_userspace d1 st a) as [ok d2], (expect_userspace d1' st a) as [ok' d2'].
    cbn [fst snd] in F2, S2. subst ok'. destruct ok; cbn [eq_res]; (split; [reflexivity|exact S2]).
  - (* goto *)
    destruct (resolve_location_cong env d0 d0' st m H) as (F & S).
    destruct (resolve_location env d0 st m) as [a d1], (resolve_location env d0' st m) as [a' d1'].
    cbn [fst snd] in F, S. subst a'. destruct a as [a|]; cbn [eq_res]; [|split; [reflexivity|exact S]].
    destruct (expect_userspace_cong d1 d1' st a S) as (F2 & S2).
    destruct (expect_userspace d1 st a) as [ok d2], (expect_userspace d1' st a) as [ok' d2'].
    cbn [fst snd] in F2, S2. subst ok'. destruct ok; cbn [eq_res]; (split; [reflexivity|exact S2]).
  - (* assembly *)
    destruct (resolve_location_cong env d0 d0' st m H) as (F & S).
    destruct (resolve_location env d0 st m) as [a d1], (resolve_location env d0' st m) as [a' d1'].
    cbn [fst snd] in F, S. subst a'. destruct a as [a|]; cbn [eq_res]; [|split; [reflexivity|exact S]].
    assert (Hi : d_init d0 = d_init d0') by apply H. rewrite <- Hi.
    destruct (source_statement _ _ _); cbn [eq_res]; (split; [reflexivity|]); auto using eqd_say_lines.
  - (* eval *)
    destruct (eval env st text); cbn [eq_res]; (split; [reflexivity|]); auto using eqd_say.
  - (* reset *)
    assert (Hi : d_init d0 = d_init d0') by apply H. rewrite Hi. split; [reflexivity|exact H].
  - (* break list *)
    rewrite <- Hb. destruct (d_bps d0); cbn [eq_res]; (split; [reflexivity|]); auto using eqd_say, eqd_say_lines.
  - (* break add *)
    destruct (resolve_location_cong env d0 d0' st m H) as (F & S).
    destruct (resolve_location env d0 st m) as [a d1], (resolve_location env d0' st m) as [a' d1'].
    cbn [fst snd] in F, S. subst a'. destruct a as [a|]; cbn [eq_res]; [|split; [reflexivity|exact S]].
    destruct (expect_userspace_cong d1 d1' st a S) as (F2 & S2).
    destruct (expect_userspace d1 st a) as [ok d2], (expect_userspace d1' st a) as [ok' d2'].
    cbn [fst snd] in F2, S2. subst ok'. destruct ok; cbn [eq_res]; [|split; [reflexivity|exact S2]].
    assert (Hb2 : d_bps d2 = d_bps d2') by apply S2. rewrite <- Hb2.
    destruct (bp_has (d_bps d2) a); cbn [eq_res]; (split; [reflexivity|]); auto using eqd_say, eqd_set_bps.
  - (* break remove *)
    destruct (resolve_location_cong env d0 d0' st m H) as (F & S).
    destruct (resolve_location env d0 st m) as [a d1], (resolve_location env d0' st m) as [a' d1'].
    cbn [fst snd] in F, S. subst a'. destruct a as [a|]; cbn [eq_res]; [|split; [reflexivity|exact S]].
    destruct (expect_userspace_cong d1 d1' st a S) as (F2 & S2).
    destruct (expect_userspace d1 st a) as [ok d2], (expect_userspace d1' st a) as [ok' d2'].
    cbn [fst snd] in F2, S2. subst ok'. destruct ok; cbn [eq_res]; [|split; [reflexivity|exact S2]].
    assert (Hb2 : d_bps d2 = d_bps d2') by apply S2. rewrite <- Hb2.
    destruct (bp_has (d_bps d2) a); cbn [eq_res]; (split; [reflexivity|]); auto using eqd_say, eqd_set_bps.
Qed.

Lemma dispatch_status_cong d d' st : eqd d d' ->
  fst (dispatch_status d st) = fst (dispatch_status d' st) /\
  eqd (snd (dispatch_status d st)) (snd (dispatch_status d' st)).
Proof.
  intros H. pose proof H as (Hs & _ & _ & Hi). unfold dispatch_status. rewrite <- Hs, <- Hi.
  destruct (d_status d) as [|ra|count| |]; cbn [fst snd].
  - split; [reflexivity|exact H].
  - destruct (s_pc st =? ra); cbn [fst snd]; (split; [reflexivity|]); [|exact H].
    apply eqd_set_status. destruct (1 <? d_icount d); [apply eqd_say|]; exact H.
  - destruct (0 <? count); cbn [fst snd]; (split; [reflexivity|]); apply eqd_set_status; exact H.
  - split; [reflexivity|exact H].
  - destruct (is_sig _ _); cbn [fst snd]; (split; [reflexivity|]); [|exact H].
    apply eqd_set_status. apply eqd_say. exact H.
Qed.

Lemma check_interrupts_cong d d' st : eqd d d' -> eqd (check_interrupts d st) (check_interrupts d' st).
Proof.
  intros H. pose proof H as (_ & Hb & _). unfold check_interrupts. rewrite <- Hb.
  destruct (bp_get (d_bps d) (s_pc st)); [apply eqd_set_status; apply eqd_say; exact H|].
  destruct (at_halt st); [apply eqd_set_status; apply eqd_say; exact H|exact H].
Qed.

(* ------------------------------------------------------------------ *)
(** * Scripts that differ by rejected lines *)

(** [ins s s']: [s] is [s'] with one [CBad] more somewhere, or [s = s']. *)
Inductive ins : list cmd -> list cmd -> Prop :=
| ins_eq : forall s, ins s s
| ins_here : forall s, ins (CBad :: s) s
| ins_later : forall c s s', ins s s' -> ins (c :: s) (c :: s').

Lemma ins_app s1 s2 : ins (s1 ++ CBad :: s2) (s1 ++ s2).
Proof. induction s1 as [|c s1 IH]; cbn [app]; [apply ins_here|apply ins_later; exact IH]. Qed.

Definition eq_na (r r' : na_result) : Prop :=
  match r, r' with
  | NaAction a d st rest n, NaAction a' d' st' rest' n' =>
      a = a' /\ st = st' /\ n = n' /\ eqd d d' /\ ins rest rest'
  | NaStop x d rest n, NaStop x' d' rest' n' => x = x' /\ n = n' /\ eqd d d' /\ ins rest rest'
  | _, _ => False
  end.

Lemma wait_loop_ins env : forall s s' d d' st n, ins s s' -> eqw d d' -> d_status d = WaitForAction ->
  eq_na (wait_loop env s d st n) (wait_loop env s' d' st n).
Proof.
  assert (Hcong : forall s d d' st n, eqw d d' -> d_status d = WaitForAction ->
            eq_na (wait_loop env s d st n) (wait_loop env s d' st n)).
  { induction s as [|c rest IH]; intros d d' st n H Hs; cbn [wait_loop eq_na].
    - exact (conj eq_refl (conj eq_refl (conj eq_refl (conj H (ins_eq _))))).
    - pose proof (run_command_cong env c d d' st H) as K.
      destruct (run_command env c d st) as [a d1 st1|d1 st1|x d1],
               (run_command env c d' st) as [a' d1' st1'|d1' st1'|x' d1']; cbn [eq_res] in K; try contradiction.
      + destruct K as (-> & -> & K). exact (conj eq_refl (conj eq_refl (conj eq_refl (conj K (ins_eq _))))).
      + destruct K as (-> & K).
        destruct (dispatch_status_cong d1 d1' st1' K) as (F & S).
        destruct (dispatch_status d1 st1') as [o d2] eqn:E, (dispatch_status d1' st1') as [o' d2'].
        cbn [fst snd] in F, S. subst o'. destruct o as [a|]; cbn [eq_na].
        * exact (conj eq_refl (conj eq_refl (conj eq_refl (conj S (ins_eq _))))).
        * apply IH; [apply eqd_eqw; exact S|exact (dispatch_none_wait _ _ _ E)].
      + destruct K as (-> & K). exact (conj eq_refl (conj eq_refl (conj K (ins_eq _)))). }
  intros s s' d d' st n Hi. revert d d' st n.
  induction Hi as [s|s|c s s' Hi IH]; intros d d' st n H Hs.
  - apply Hcong; assumption.
  - (* the rejected line is read now *)
    cbn [wait_loop run_command cmd_cost]. unfold dispatch_status at 1. cbn [say set_icount d_status]. rewrite Hs.
    rewrite N.add_0_r. apply Hcong; [|cbn [say set_icount d_status]; exact Hs].
    unfold eqw in *. cbn [say set_icount] in *. destruct H as (A & B & C & D). repeat split; assumption.
  - cbn [wait_loop eq_na].
    pose proof (run_command_cong env c d d' st H) as K.
    destruct (run_command env c d st) as [a d1 st1|d1 st1|x d1],
             (run_command env c d' st) as [a' d1' st1'|d1' st1'|x' d1']; cbn [eq_res] in K; try contradiction.
    + destruct K as (-> & -> & K). exact (conj eq_refl (conj eq_refl (conj eq_refl (conj K Hi)))).
    + destruct K as (-> & K).
      destruct (dispatch_status_cong d1 d1' st1' K) as (F & S).
      destruct (dispatch_status d1 st1') as [o d2] eqn:E, (dispatch_status d1' st1') as [o' d2'].
      cbn [fst snd] in F, S. subst o'. destruct o as [a|]; cbn [eq_na].
      * exact (conj eq_refl (conj eq_refl (conj eq_refl (conj S Hi)))).
      * apply IH; [apply eqd_eqw; exact S|exact (dispatch_none_wait _ _ _ E)].
    + destruct K as (-> & K). exact (conj eq_refl (conj eq_refl (conj K Hi))).
Qed.

Lemma next_action_ins env s s' d d' st : ins s s' -> eqd d d' ->
  eq_na (next_action env s d st) (next_action env s' d' st).
Proof.
  intros Hi H. unfold next_action.
  set (d1 := if (s_pc st <? s_orig st) || (65024 <=? s_pc st) then _ else d).
  set (d1' := if (s_pc st <? s_orig st) || (65024 <=? s_pc st) then _ else d').
  assert (H1 : eqd d1 d1').
  { unfold d1, d1'. destruct ((s_pc st <? s_orig st) || (65024 <=? s_pc st)); [|exact H].
    apply eqd_set_status. apply eqd_say. exact H. }
  pose proof (check_interrupts_cong d1 d1' st H1) as H2.
  destruct (dispatch_status_cong _ _ st H2) as (F & S).
  destruct (dispatch_status (check_interrupts d1 st) st) as [o d3] eqn:E,
           (dispatch_status (check_interrupts d1' st) st) as [o' d3'].
  cbn [fst snd] in F, S. subst o'. destruct o as [a|]; cbn [eq_na].
  - exact (conj eq_refl (conj eq_refl (conj eq_refl (conj S Hi)))).
  - apply wait_loop_ins; [exact Hi|apply eqd_eqw; exact S|exact (dispatch_none_wait _ _ _ E)].
Qed.

Definition eq_tick (r r' : tick_result) : Prop :=
  match r, r' with
  | TStop k c st d e n, TStop k' c' st' d' e' n' => k = k' /\ c = c' /\ st = st' /\ e = e' /\ n = n' /\ eqd d d'
  | TDetach d st n, TDetach d' st' n' => st = st' /\ n = n' /\ eqd d d'
  | TNext rest d st e n, TNext rest' d' st' e' n' => st = st' /\ e = e' /\ n = n' /\ eqd d d' /\ ins rest rest'
  | _, _ => False
  end.

Lemma tick_ins env s s' d d' st : ins s s' -> eqd d d' -> eq_tick (tick env s d st) (tick env s' d' st).
Proof.
  intros Hi H. unfold tick. pose proof (next_action_ins env s s' d d' st Hi H) as K.
  destruct (next_action env s d st) as [a d1 st1 rest n|x d1 rest n],
           (next_action env s' d' st) as [a' d1' st1' rest' n'|x' d1' rest' n']; cbn [eq_na] in K; try contradiction.
  - destruct K as (-> & -> & -> & K & Hr). pose proof K as (_ & _ & _ & Hic).
    destruct a'; cbn [eq_tick].
    + destruct (at_halt st1'); [exact (conj eq_refl (conj eq_refl (conj eq_refl (conj K Hr))))|].
      destruct ((s_pc st1' <? s_orig st1') || (65024 <=? s_pc st1'));
        [exact (conj eq_refl (conj eq_refl (conj eq_refl (conj K Hr))))|].
      rewrite <- Hic.
      assert (K2 : eqd (set_icount d1 (d_icount d1 + 1)) (set_icount d1' (d_icount d1 + 1)))
        by (apply eqd_set_icount; exact K).
      destruct (W <=? s_pc st1' + 1);
        [exact (conj eq_refl (conj eq_refl (conj eq_refl (conj eq_refl (conj eq_refl K2)))))|].
      destruct (execute _ _ _); cbn [eq_tick].
      * exact (conj eq_refl (conj eq_refl (conj eq_refl (conj K2 Hr)))).
      * exact (conj eq_refl (conj eq_refl (conj eq_refl (conj eq_refl (conj eq_refl K2))))).
      * exact (conj eq_refl (conj eq_refl (conj eq_refl (conj eq_refl (conj eq_refl K2))))).
      * exact (conj eq_refl (conj eq_refl (conj eq_refl (conj eq_refl (conj eq_refl K2))))).
    + exact (conj eq_refl (conj eq_refl K)).
    + exact (conj eq_refl (conj eq_refl (conj eq_refl (conj eq_refl (conj eq_refl K))))).
  - destruct K as (-> & -> & K & Hr).
    destruct x'; exact (conj eq_refl (conj eq_refl (conj eq_refl (conj eq_refl (conj eq_refl K))))).
Qed.

(** Two session results that differ at most in the debugger's stderr. *)
Definition same_but_stderr (r r' : session_result) : Prop :=
  sr_kind r = sr_kind r' /\ sr_code r = sr_code r' /\ sr_state r = sr_state r' /\
  sr_ticks r = sr_ticks r' /\ sr_execs r = sr_execs r' /\ sr_cmds r = sr_cmds r' /\
  match sr_dbg r, sr_dbg r' with
  | Some d, Some d' => eqd d d'
  | None, None => True
  | _, _ => False
  end.

Lemma of_vm_same v st0 err err' t e c : same_but_stderr (of_vm v st0 err t e c) (of_vm v st0 err' t e c).
Proof. unfold of_vm, same_but_stderr. destruct (fst v); cbn; repeat split. Qed.

Theorem session_ins env fuel : forall s s' d d' st t e c, ins s s' -> eqd d d' ->
  same_but_stderr (session env fuel s d st t e c) (session env fuel s' d' st t e c).
Proof.
  induction fuel as [|fuel IH]; intros s s' d d' st t e c Hi H; cbn [session].
  - unfold same_but_stderr; cbn. exact (conj eq_refl (conj eq_refl (conj eq_refl (conj eq_refl (conj eq_refl (conj eq_refl H)))))).
  - pose proof (tick_ins env s s' d d' st Hi H) as K.
    destruct (tick env s d st) as [k cd st1 d1 e1 n|d1 st1 n|rest d1 st1 e1 n],
             (tick env s' d' st) as [k' cd' st1' d1' e1' n'|d1' st1' n'|rest' d1' st1' e1' n'];
      cbn [eq_tick] in K; try contradiction.
    + destruct K as (-> & -> & -> & -> & -> & K). unfold same_but_stderr; cbn.
      exact (conj eq_refl (conj eq_refl (conj eq_refl (conj eq_refl (conj eq_refl (conj eq_refl K)))))).
    + destruct K as (-> & -> & K). apply of_vm_same.
    + destruct K as (-> & -> & -> & K & Hr). apply IH; assumption.
Qed.

(** The statement for a script: a rejected line, wherever it stands, changes nothing in the session
    — stop kind, exit code, registers, PC, condition code, memory, console, iteration, instruction
    and command counts, breakpoints, status, saved initial state — except the debugger's stderr. *)
Theorem rejected_line_no_effect_session env fuel s1 s2 d st t e c :
  same_but_stderr (session env fuel (s1 ++ CBad :: s2) d st t e c) (session env fuel (s1 ++ s2) d st t e c).
Proof. apply session_ins; [apply ins_app|apply eqd_refl]. Qed.
