(* Feat.v — MODEL of `Features::from_str` (features.rs: the value parser clap calls for `-f` /
   `--features`) and its SPEC: the list is split at commas, empty elements are skipped, the only
   name is `stack`, and it may be given once. *)
From Coq Require Import List NArith Bool String.
From Lace Require Import Word Asm.
Import ListNotations.
Open Scope N_scope.

(** [str::split(',')]: always at least one element. *)
Fixpoint split_commas (s : list N) : list (list N) :=
  match s with
  | [] => [[]]
  | c :: r =>
      if c =? 44 then [] :: split_commas r
      else match split_commas r with
           | w :: ws => (c :: w) :: ws
           | [] => [[c]]
           end
  end.

Definition is_empty (w : list N) : bool := match w with [] => true | _ => false end.
Definition is_stack (w : list N) : bool := leqb w (str "stack").

(** The loop of [from_str]; [None]: `Err(..)` (clap then refuses the command line). *)
Fixpoint parse_words (ws : list (list N)) (stack : bool) : option bool :=
  match ws with
  | [] => Some stack
  | w :: r =>
      if is_empty w then parse_words r stack
      else if is_stack w then (if stack then None else parse_words r true)
      else None
  end.

Definition parse_features (s : list N) : option bool := parse_words (split_commas s) false.

(* ------------------------------------------------------------------ *)
(** * Spec *)

Definition named (s : list N) : list (list N) := filter (fun w => negb (is_empty w)) (split_commas s).

Lemma parse_words_filter : forall ws b,
  parse_words ws b = parse_words (filter (fun w => negb (is_empty w)) ws) b.
Proof.
  induction ws as [|w r IH]; intros b; [reflexivity|]. cbn [parse_words filter].
  destruct (is_empty w) eqn:E; cbn [negb]; [apply IH|].
  cbn [parse_words]. rewrite E. destruct (is_stack w); [destruct b; [reflexivity|apply IH]|reflexivity].
Qed.

Lemma parse_words_on : forall ws, Forall (fun w => is_empty w = false) ws ->
  parse_words ws true = match ws with [] => Some true | _ => None end.
Proof.
  intros ws H. destruct ws as [|w r]; [reflexivity|]. inversion H as [|? ? Hw _]; subst.
  cbn [parse_words]. rewrite Hw. destruct (is_stack w); reflexivity.
Qed.

(** The extension is on exactly when the elements that are not empty are the single name `stack`;
    off exactly when there is none; anything else — another name, another letter case, blanks
    around the name, `stack` twice — is refused. *)
Theorem parse_features_spec s :
  parse_features s =
  match named s with
  | [] => Some false
  | [w] => if is_stack w then Some true else None
  | _ => None
  end.
Proof.
  unfold parse_features, named. rewrite parse_words_filter.
  assert (H : Forall (fun w => is_empty w = false) (filter (fun w => negb (is_empty w)) (split_commas s))).
  { apply Forall_forall. intros w Hw. apply filter_In in Hw. destruct Hw as [_ Hw].
    destruct (is_empty w); [discriminate|reflexivity]. }
  destruct (filter _ _) as [|w r]; [reflexivity|]. inversion H as [|? ? Hw Hr]; subst.
  cbn [parse_words]. rewrite Hw. destruct (is_stack w); [|destruct r; reflexivity].
  rewrite (parse_words_on r Hr). destruct r; reflexivity.
Qed.

(** Non-vacuity. *)
Lemma ex_features :
  parse_features (str "stack") = Some true /\ parse_features (str ",stack,,") = Some true /\
  parse_features (str "") = Some false /\ parse_features (str ",,") = Some false /\
  parse_features (str "stack,stack") = None /\ parse_features (str "Stack") = None /\
  parse_features (str " stack") = None /\ parse_features (str "stack,heap") = None.
Proof. vm_compute. repeat split. Qed.
