(* Feat.v — MODEL of `Features::from_str` (features.rs: the value parser clap calls for `-f` /
   `--features`) and its SPEC: the list is split at commas, empty elements are skipped, the only
   name is `stack`, and it may be given once. *)
From Coq Require Import List NArith Bool String.
From Lace Require Import Word Asm.
Import ListNotations.
Open Scope N_scope.

(** [str::split(',')]: always at least one element. *)
Fixpoint split_commas (s : list N) : list (list N) :=
  match s with
  | [] => [[]]
  | c :: r =>
      if c =? 44 then [] :: split_commas r
      else match split_commas r with
           | w :: ws => (c :: w) :: ws
           | [] => [[c]]
           end
  end.

Definition is_empty (w : list N) : bool := match w with [] => true | _ => false end.
Definition is_stack (w : list N) : bool := leqb w (str "stack").

(** The loop of [from_str]; [None]: `Err(..)` (clap then refuses the command line). *)
Fixpoint parse_words (ws : list (list N)) (stack : bool) : option bool :=
  match ws with
  | [] => Some stack
  | w :: r =>
      if is_empty w then parse_words r stack
      else if is_stack w then (if stack then None else parse_words r true)
      else None
  end.

Definition parse_features (s : list N) : option bool := parse_words (split_commas s) false.

(* ------------------------------------------------------------------ *)
(** * Spec *)

Definition named (s : list N) : list (list N) := filter (fun w => negb (is_empty w)) (split_commas s).

Lemma parse_words_filter : forall ws b,
  parse_words ws b = parse_words (filter (fun w => negb (is_empty w)) ws) b.
Proof.
  induction ws as [|w r IH]; intros b; [reflexivity|]. cbn [parse_words filter].
  destruct (is_empty w) eqn:E; cbn [negb]; [apply IH|].
  cbn [parse_words]. rewrite E. destruct (is_stack w); [destruct b; [reflexivity|apply IH]|reflexivity].
Qed.

Lemma parse_words_on : forall ws, Forall (fun w => is_empty w = false) ws ->
  parse_words ws true = match ws with [] => Some true | _ => None end.
Proof.
  intros ws H. destruct ws as [|w r]; [reflexivity|]. inversion H as [|? ? Hw _]; subst.
  cbn [parse_words]. rewrite Hw. destruct (is_stack w); reflexivity.
Qed.

(** The extension is on exactly when the elements that are not empty are the single name `stack`;
    off exactly when there is none; anything else — another name, another letter case, blanks
    around the name, `stack` twice — is refused. *)
Theorem parse_features_spec s :
  parse_features s =
  match named s with
  | [] => Some false
  | [w] => if is_stack w then Some true else None
  | _ => None
  end.
Proof.
  unfold parse_features, named. rewrite parse_words_filter.
  assert (H : Forall (fun w => is_empty w = false) (filter (fun w => negb (is_empty w)) (split_commas s))).
  { apply Forall_forall. intros w Hw. apply filter_In in Hw. destruct Hw as [_ Hw].
    destruct (is_empty w); [discriminate|reflexivity]. }
  destruct (filter _ _) as [|w r]; [reflexivity|]. inversion H as [|? ? Hw Hr]; subst.
  cbn [parse_words]. rewrite Hw. destruct (is_stack w); [|destruct r; reflexivity].
  rewrite (parse_words_on r Hr). destruct r; reflexivity.
Qed.

(** Non-vacuity. *)
Lemma ex_features :
  parse_features (str "stack") = Some true /\ parse_features (str ",stack,,") = Some true /\
  parse_features (str "") = Some false /\ parse_features (str ",,") = Some false /\
  parse_features (str "stack,stack") = None /\ parse_features (str "Stack") = None /\
  parse_features (str " stack") = None /\ parse_features (str "stack,heap") = None.
Proof. vm_compute. repeat split. Qed.

(* ------------------------------------------------------------------ *)
(** * The whole command line (main.rs since F32)

    `-f` / `--features` may be written before the sub-command (clap: `global_features`) and after it (the sub-command's
    own option); what is not written counts as the empty list.  A value the parser refuses ends the process (clap,
    status 2); otherwise the two are combined with `Features::union`. *)
Definition union (a b : bool) : bool := a || b.

Definition one_position (v : option (list N)) : option bool :=
  match v with None => Some false | Some s => parse_features s end.

Definition command_line (pre post : option (list N)) : option bool :=
  match one_position pre, one_position post with
  | Some a, Some b => Some (union a b)
  | _, _ => None
  end.

(** The extension is on exactly when both positions are acceptable and at least one of them names `stack`;
    it is off exactly when both are acceptable and neither does. *)
Theorem command_line_spec pre post :
  (command_line pre post = Some true <->
     exists a b, one_position pre = Some a /\ one_position post = Some b /\ (a = true \/ b = true)) /\
  (command_line pre post = Some false <-> one_position pre = Some false /\ one_position post = Some false) /\
  (command_line pre post = None <-> one_position pre = None \/ one_position post = None).
Proof.
  unfold command_line, union.
  destruct (one_position pre) as [[|]|]; destruct (one_position post) as [[|]|]; cbn [orb].
  all: split; [split|split; split].
  all: try (intros H; discriminate H).
  all: try (intros [H|H]; discriminate H).
  all: try (intros [H1 H2]; first [discriminate H1|discriminate H2]).
  all: try (intros _; first [reflexivity | left; reflexivity | right; reflexivity | split; reflexivity]).
  all: try (intros _; eexists; eexists; split; [reflexivity|split; [reflexivity|first [left; reflexivity|right; reflexivity]]]).
  all: try (intros (a & b & Ha & Hb & Hc); first [discriminate Ha | discriminate Hb | (injection Ha as <-; injection Hb as <-; destruct Hc as [Hc|Hc]; discriminate Hc)]).
Qed.

Lemma ex_command_line :
  command_line (Some (str "stack")) (Some (str "stack")) = Some true /\
  command_line (Some (str "stack")) None = Some true /\ command_line None (Some (str ",stack")) = Some true /\
  command_line (Some (str "")) (Some (str "")) = Some false /\ command_line None None = Some false /\
  command_line (Some (str "heap")) (Some (str "stack")) = None.
Proof. vm_compute. repeat split. Qed.
