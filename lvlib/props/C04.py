"""C04 — the assembler accepts exactly the programs whose operands fit (boundary enumeration)."""
import random
import asmgen, asmcommon

# parts of an assembly result the property does not speak about: a difference in these alone breaks the
# correspondence but is not an input on which the property fails (reported with no-failing-input-found)
AUX = ('bps', 'spans')

ASSUMPTIONS = [
    "a numeric literal denotes a 16-bit value; a signed field is checked on that value read as two's complement",
    "programs of more than 65,534 statements are rejected for their size (addressability side condition)",
]

VALUES16 = [-32768, -32767, -1, 0, 1, 32767, 32768, 65535]


def spellings(v):
    u = v & 0xFFFF
    s = u - 65536 if u >= 32768 else u
    out = ["#" + str(v), "x%X" % u, "0x%x" % u]
    if s < 0:
        out += ["x-%X" % (-s), "#" + str(s)]
    return sorted(set(out))


def boundary(bits, signed=True):
    if signed:
        lim = 1 << (bits - 1)
        return sorted(set([-lim - 1, -lim, -lim + 1, -1, 0, 1, lim - 2, lim - 1, lim] + VALUES16))
    lim = 1 << bits
    return sorted(set([-1, 0, 1, lim // 2 - 1, lim // 2, lim - 1, lim, 65535, 32768, 32767]))


SOURCES = []      # (tag, feature, text) of the cases built by gen_cases, for the command-line stage


def cli_accept(ctx, violations):
    """What the USER sees as 'accepted': the exit status of `lace check` (real binary, hooks off) on the boundary sources
    - all label-distance, label and .orig cases, a stride of the literal grid - against the model's decision."""
    import os, clicommon
    from props import C06
    exe = ctx.cli()
    d = clicommon.fresh_dir(ctx, "cliaccept")
    picks = [x for i, x in enumerate(SOURCES) if x[0].startswith(("dist", "label", "orig", "dup", "undef")) or i % (9 if ctx.tier == "quick" else 2) == 0]
    picks = [x for x in picks if len(x[2]) < 20000][: (900 if ctx.tier == "quick" else 20000)]
    model = ctx.run_model([C06.obj_case(f, t) for _, f, t in picks], tag="cliaccept")
    jobs = []
    for k, (tg, feat, text) in enumerate(picks):
        f = os.path.join(d, f"a{k}.asm")
        with open(f, "w", encoding="utf-8") as fh:
            fh.write(text)
        jobs.append(lambda f=f, feat=feat: clicommon.run_cli(exe, ["check", f] + (["-f", "stack"] if feat else []), d))
    got = clicommon.parallel(jobs)
    n = bad = 0
    for (tg, feat, text), m, (rc, so, se) in zip(picks, model, got):
        me = int(m[0].split()[0], 16)
        n += 1
        if (rc == 0) != (me == 0) or rc not in (0, 1):
            bad += 1
            if bad <= 4:
                violations.append({"kind": "check-verdict-differs", "tag": tg, "feature_stack": feat, "source": text, "check_exit": rc,
                                   "model_accepts": me == 0, "check_output": (so + se).decode("utf-8", "replace")[-400:]})
    return {"runs": n, "mismatches": bad, "rule": "real binary: exit status of `lace check` vs the model's accept/reject decision"}


def gen_cases(tier, seed):
    rnd = random.Random(seed)
    cases, tags = [], []

    SOURCES.clear()

    def add(tag, text, feat=0):
        cases.append(asmgen.asm_case(feat, [(1, text)])); tags.append(tag); SOURCES.append((tag, feat, text))

    # literal operands of every form at the field boundaries, in every spelling
    forms = [("imm5", "add r1 r2 {}", 5, True), ("imm5", "and r7 r0 {}", 5, True),
             ("off6", "ldr r1 r2 {}", 6, True), ("off6", "str r3 r4 {}", 6, True),
             ("pc9", "br {}", 9, True), ("pc9", "brz {}", 9, True), ("pc9", "ld r0 {}", 9, True),
             ("pc9", "ldi r0 {}", 9, True), ("pc9", "lea r0 {}", 9, True), ("pc9", "st r0 {}", 9, True),
             ("pc9", "sti r0 {}", 9, True), ("pc11", "jsr {}", 11, True),
             ("trap8", "trap {}", 8, False), ("orig16", ".orig {}\nhalt", 16, False), ("fill16", ".fill {}", 16, False)]
    for tag, tmpl, bits, signed in forms:
        for v in boundary(bits, signed):
            if v < -32768 or v > 65535:
                continue
            for sp in spellings(v):
                add("lit-" + tag, "halt\nhalt\n" + tmpl.format(sp) + "\nhalt\n")
    # systematic literal spellings: prefix x sign x magnitude, incl. magnitudes beyond 16 bits and negative
    # magnitudes beyond 15 bits (x-8001 .. x-FFFF, #-32769 ..), in every literal-taking form
    mags = [0, 1, 0xF, 0x10, 0x1F, 0x20, 0xFF, 0x100, 0x1FF, 0x3FF, 0x400, 0x7FF, 0x7FFF, 0x8000, 0x8001, 0xD000,
            0xFC01, 0xFFDB, 0xFFE0, 0xFFE1, 0xFFF0, 0xFFF1, 0xFFFF, 0x10000, 0x1FFFF]
    toks = []
    for sign in ("", "-", "+"):
        for m in mags:
            toks += [f"x{sign}{m:X}", f"0x{sign}{m:x}", f"#{sign}{m}", f"{sign}x{m:X}", f"x{sign}0{m:X}"]
    for tag, tmpl, bits, signed in forms:
        for tk in toks:
            add("spelling-" + tag, "halt\nhalt\n" + tmpl.format(tk) + "\nhalt\n")
    # every trap vector and 256
    for v in range(0, 257):
        add("trapvec", "trap x%X\n" % v)
    # .orig values
    for v in [0, 1, 0x7FFF, 0x8000, 0xFDFF, 0xFE00, 0xFFFF]:
        add("orig", ".orig x%X\nhalt\n" % v)
    add("orig", ".orig x10000\nhalt\n"); add("orig", ".orig #65536\nhalt\n"); add("orig", ".orig #-1\nhalt\n")
    # label distances exactly at, inside and beyond each field's range, forwards and backwards
    for m, bits, feat in [("br", 9, 0), ("brnzp", 9, 0), ("ld r1", 9, 0), ("ldi r2", 9, 0), ("lea r3", 9, 0),
                          ("st r4", 9, 0), ("sti r5", 9, 0), ("jsr", 11, 0), ("call", 10, 1)]:
        lim = 1 << (bits - 1)
        for d in [lim - 2, lim - 1, lim, lim + 1]:
            # forward: target = use + 1 + d
            pad = d
            add("dist-fwd", f"{m} target\n.blkw #{pad}\ntarget halt\n" if pad > 0 else f"{m} target\ntarget halt\n", feat)
            add("dist-fwd-split", f"{m} target\n.blkw #{pad // 2}\n.blkw x{pad - pad // 2:X}\ntarget halt\n", feat)
        for d in [-lim - 2, -lim - 1, -lim, -lim + 1]:
            # backward: target = use + 1 + d  =>  words between target and use = -d - 1
            pad = -d - 2
            add("dist-back", f"target halt\n.blkw #{pad}\n{m} target\n", feat)
        add("dist-self", f"here {m} here\n", feat)
    # label errors
    add("undef", "br nowhere\nhalt\n"); add("undef", "ld r0 Nowhere\nnowhere halt\n")
    add("dup", "a halt\na halt\n"); add("dup", "a halt\nbr a\na .fill #1\n"); add("case-differs", "a halt\nA halt\nbr a\nbr A\n")
    add("dup", "a\n.break\nhalt\na halt\n")
    # a second definition that gets the SAME line number (the line counter does not advance on .orig/.break)
    for sep in ("\n", " "):
        add("dup-same-line", f"main .orig x3000{sep}main add r0 r0 #1\nhalt\n")
        add("dup-same-line", f"l .break{sep}l halt\n")
        add("dup-same-line", f"l .break{sep}l .break{sep}l halt\n")
        add("dup-same-line", f"halt\nl .break{sep}l halt\nbr l\n")
        add("dup-same-line", f"l .orig x4000{sep}l .break{sep}l halt\n")
        add("dup-same-line", f"halt\nend_ .break{sep}end_ .break\n")
    for m in ("br", "ld r1", "lea r2", "st r3", "jsr"):
        add("case-only-ref", f"Lbl halt\n{m} lbl\n"); add("case-only-ref", f"{m} LBL\nlbl halt\n")
        add("case-only-ref", f"BUF .fill #1\nBuf .fill #2\n{m} buf\nhalt\n")
    # .orig repeated / positions
    add("orig-twice", ".orig x3000\n.orig x3000\nhalt\n"); add("orig-twice", ".orig x3000\nhalt\n.orig x4000\n")
    add("orig-pos", "halt\n.orig x3000\nhalt\n"); add("orig-pos", "halt\nhalt\n.orig x5000\n")
    add("orig-none", "halt\n")
    # size extremes (addressability)
    if tier != "quick":
        add("size", ".blkw xFFFF\n" * 1 + "halt\n")
        add("size", ".blkw xFFFE\nhalt\n")
        add("size", ".blkw xFFFD\nhalt\n")
        add("size", "a halt\n.blkw xFFFF\nbr a\n")
    # random valid programs with one operand pushed just out of range
    n = 300 if tier == "quick" else 5000
    for i in range(n):
        items = asmgen.gen_program(rnd, stack=False)
        text = asmgen.render(rnd, items, style="plain")
        add("random-valid", text)
    return cases, tags


def correspondence(ctx, violations, known_hits):
    cases, tags = gen_cases(ctx.tier, ctx.seed)
    profiles = ("debug",) if ctx.tier == "quick" else ("debug", "release")
    r = asmcommon.run_asm_cases(ctx, cases, tags, violations, profiles, aux=AUX,
                                prop_note="the model's accept/reject decision is proved to be the 'fits' predicate at operand level (C04 theorems)")
    cli = cli_accept(ctx, violations)
    ctx.cleanup()
    return {
        "lace_check_on_the_command_line": cli,
        "evaluations": r["evaluations"] + cli["runs"], "distinct_nontrivial": len(r["sigs"]),
        "rule": "every literal-taking form x boundary values of its field (min-1, min, -1, 0, max, max+1, 16-bit extremes) x "
                "spellings (#dec, #unsigned, xHEX, 0xhex, x-HEX); every trap vector 0..256; .orig values; label distances "
                "at/inside/beyond +-2^(n-1) built with .blkw for every PC-relative instruction incl. CALL; undefined, duplicate, "
                "case-differing labels; .orig repeated and in every position; size extremes (thorough); random valid programs; "
                "distinct = distinct (class, outcome, diagnostic)",
        "exhaustive": True, "exhaustive_over": "the listed boundary grid (not the whole operand space)",
        "outcome_histogram": r["hist"], "samples": r["samples"], "mismatches": r["mismatches"],
        "diagnostic_class_differs": r["diag_differs"], "profiles": list(profiles),
    }


def replay(ctx, payload):
    if payload.get("kind") == "check-verdict-differs":
        import os, core, clicommon
        from core import log
        from props import C06
        exe, out = core.build_lace_cli()
        if exe is None:
            log(out[-2000:]); return 2
        d = clicommon.fresh_dir(ctx, "replaycheck")
        f = os.path.join(d, "a.asm"); open(f, "w", encoding="utf-8").write(payload["source"])
        feat = payload.get("feature_stack", 0)
        rc, so, se = clicommon.run_cli(exe, ["check", f] + (["-f", "stack"] if feat else []), d)
        m = ctx.run_model([C06.obj_case(feat, payload["source"])], tag="replaycheck")
        me = int(m[0][0].split()[0], 16)
        log(f"lace check: exit {rc}; model accepts: {me == 0}; output tail: {(so + se).decode('utf-8', 'replace')[-200:]!r}")
        return 0 if (rc == 0) == (me == 0) and rc in (0, 1) else 1
    return asmcommon.replay_asm(ctx, payload)
