"""C09 — the debugger is transparent to the program."""
import random
import dbggen, dbgcommon

# observations the property does not speak about: a difference in these alone breaks the correspondence
# but is not an input on which the property fails (reported with no-failing-input-found)
AUX = ('debugger output differs', 'cmds differs', 'attached differs', 'bps differs')

ASSUMPTIONS = [
    "one stream, two readers: when the script does not end in quit/exit the program gets no console input (the debugger's stdin reader would consume it as commands)",
    "commands reach the model parsed (the command language is C14's); the script text is rendered canonically from the same values",
    "sessions that exceed the iteration budget on either side are skipped (counted in skipped_for_budget)",
]


def gen(tier, seed):
    rnd = random.Random(seed)
    n = 1500 if tier == "quick" else 200000
    specs, pairs = [], []
    for i in range(n):
        p = dbggen.PROGRAMS[i % len(dbggen.PROGRAMS)]
        src, feat = p(rnd)
        if rnd.random() < 0.15:
            feat = 1 - feat
        orig = dbggen.origin_of(src)
        inp = [rnd.choice([0x41, 0x0A, 0x80, 0x31]) for _ in range(2)] if (p is dbggen.p_io and rnd.random() < 0.6) else []
        cmds = dbggen.gen_script(rnd, dbggen.READONLY, orig, 14, maxlen=30, end=("quit" if inp else rnd.choice(["quit", "eof"])))
        specs.append((p.__name__, feat, src, inp, cmds))
        specs.append(("plain:" + p.__name__, feat, src, inp, [("quit",)] if inp else []))
        pairs.append((len(specs) - 2, len(specs) - 1))
    rnd2 = random.Random(seed + 101)
    for i in range(n // 8):
        p = dbggen.PROGRAMS_LATER[i % len(dbggen.PROGRAMS_LATER)]
        src, feat = p(rnd2)
        cmds = dbggen.gen_script(rnd2, dbggen.READONLY, dbggen.origin_of(src), 14, maxlen=30, end=rnd2.choice(["quit", "eof"]))
        specs.append((p.__name__, feat, src, [], cmds))
        specs.append(("plain:" + p.__name__, feat, src, [], []))
        pairs.append((len(specs) - 2, len(specs) - 1))
    return rnd, specs, pairs


def correspondence(ctx, violations, known_hits):
    rnd, specs, pairs = gen(ctx.tier, ctx.seed)
    cases, tags = dbgcommon.make_cases(rnd, specs)
    profiles = ("debug",) if ctx.tier == "quick" else ("debug", "release")
    r = dbgcommon.run_dbg_cases(ctx, cases, tags, violations, profiles, aux=AUX,
                                note="model: a read-only script never changes the machine (C09_transparent)")
    # direct: the implementation's debugged run vs its own plain run
    ri, _ = r["results"]["debug"]
    direct, bad = 0, 0
    for a, b in pairs:
        fa, _ = dbgcommon.impl_fields(ri[a]) if ri[a] else (None, None)
        fb, _ = dbgcommon.impl_fields(ri[b]) if ri[b] else (None, None)
        if not fa or not fb or fa["kind"] == 4 or fb["kind"] == 4:
            continue
        direct += 1
        same = all(fa[k] == fb[k] for k in ("kind", "code", "pc", "cc", "regs", "out", "inpleft", "mem"))
        if not same:
            bad += 1
            if bad <= 5:
                violations.append({"kind": "debugged-run-differs-from-plain-run", "case": cases[a], "plain_case": cases[b],
                                   "debugged": ri[a][0], "plain": ri[b][0]})
    real = dbgcommon.cli_cross(ctx, specs, violations, limit=(60 if ctx.tier == "quick" else 1500))
    r["evaluations"] += real.get("sessions", 0)
    real["shared_stdin"] = dbgcommon.cli_shared_stream(ctx, violations, n=(24 if ctx.tier == "quick" else 400))
    real["terminal_stdin"] = dbgcommon.cli_tty_stdin(ctx, violations)
    r["evaluations"] += real["terminal_stdin"]["sessions"]
    real["full_output_mode"] = full_output_mode(ctx, violations, n=(60 if ctx.tier == "quick" else 1200))
    r["evaluations"] += real["full_output_mode"]["sessions"]
    real["flag_positions"] = flag_positions(ctx, violations)
    r["evaluations"] += real["flag_positions"]["sessions"]
    if ctx.tier != "quick":
        real["very_long_run"] = very_long_run(ctx, violations)
    ctx.cleanup()
    return dbgcommon.coverage(r,
        "programs (loops, nested JSR/RET, CALL/RETS recursion, push/pop, self-modifying, ending in each exception, HALT in the "
        "middle, .break directives, console I/O, tight loops, no HALT, high origin) x random scripts (length <= 30) over "
        "{step, step into k, step out, continue, break add/remove/list a, print, registers, assembly, echo, help} with valid and "
        "invalid arguments, ended by quit or end of input; each session vs the model AND vs the implementation's own plain run "
        "(final registers, PC, CC, all memory, program output, remaining input, exit status)", profiles,
        direct_comparisons=direct, direct_mismatches=bad, real_binary_without_hooks=real)


LONG_NAMES = """.orig x3000
        lea r0 banner
        puts
        and r1 r1 #0
        add r1 r1 #3
again   jsr print_countdown_step
        add r1 r1 #-1
        brp again
        lea r0 a_label_of_exactly_31_characters   ;   a comment that makes this source line a good deal longer than any column
        puts
        halt
print_countdown_step
        ld r0 ascii_zero
        add                r0                r0                r1
        out
        ld r0 blank_13chars
        out
        ret
ascii_zero .fill x30
blank_13chars      .fill x20
label_14_chars .fill x0
banner     .stringz "countdown: "
a_label_of_exactly_31_characters       .stringz "liftoff\\n"
"""


def full_output_mode(ctx, violations, n):
    """The real binary WITHOUT --minimal (the mode with the drawn tables, headings and colours switched off by NO_COLOR):
    `lace debug --command SCRIPT prog` vs `lace run prog`, same standard output byte for byte and same exit status.  Programs
    with long label names and long source lines (what the breakpoint table and the source excerpts have to cut), scripts of
    inspection commands with breakpoints on every label."""
    import os, re
    import clicommon
    exe = ctx.cli()
    rnd = random.Random(ctx.seed + 77)
    d = clicommon.fresh_dir(ctx, "c09full")
    jobs, metas = [], []
    long_labels = re.findall(r"^([A-Za-z_][A-Za-z_0-9]*)", LONG_NAMES, flags=re.M)
    for k in range(n):
        if k % 2 == 0:
            src, feat = LONG_NAMES, 0
            cmds = []
            for l in rnd.sample(long_labels, rnd.randrange(1, len(long_labels) + 1)):
                cmds.append("break add " + l + rnd.choice(["", "", "+1"]))
            pool = ["break list", "continue", "step", "registers", "assembly", "print r1", "print " + rnd.choice(long_labels), "assembly " + rnd.choice(long_labels),
                    "step into 3", "break remove " + rnd.choice(long_labels), "echo hello", "help"]
            cmds += [rnd.choice(pool) for _ in range(rnd.randrange(2, 12))]
            if "break list" not in cmds:
                cmds.insert(rnd.randrange(len(cmds) + 1), "break list")
            cmds += ["continue"] * rnd.choice([0, 0, 8])
            text = "\n".join(cmds)
        else:
            p = dbggen.PROGRAMS[k % len(dbggen.PROGRAMS)]
            src, feat = p(rnd)
            if p in (dbggen.p_io, dbggen.p_selfloop, dbggen.p_no_halt):
                continue
            cs = dbggen.gen_script(rnd, dbggen.READONLY, dbggen.origin_of(src), 10, maxlen=16, end="eof")
            text = dbggen.script_text(rnd, cs)
        f = os.path.join(d, f"p{k}.asm")
        open(f, "w", encoding="utf-8").write(src)
        fl = ["-f", "stack"] if feat else []
        jobs.append(lambda f=f, fl=fl, t=text: (clicommon.run_cli(exe, ["run", f] + fl, d, stdin=b"", timeout=20),
                                                clicommon.run_cli(exe, ["debug", f] + fl + ["--command", t], d, stdin=b"", timeout=20)))
        metas.append((src, feat, text))
    got = clicommon.parallel(jobs)
    bad = skipped = 0
    for (src, feat, text), ((prc, pso, pse), (rc, so, se)) in zip(metas, got):
        if src is LONG_NAMES and (prc != 0 or b"countdown: 3 2 1 liftoff" not in pso):
            raise RuntimeError("C09 full-output stage: the designed program does not run as designed: %r %r" % (prc, pso[-200:]))
        if prc == -9 or rc == -9:
            skipped += 1          # does not terminate (in either mode): outside the property
            continue
        if (prc, pso) != (rc, so):
            bad += 1
            if bad <= 4:
                violations.append({"kind": "full-output-mode", "source": src, "feature_stack": feat, "script": text,
                                   "run": [prc, pso.decode("utf-8", "replace")[-400:]], "debug": [rc, so.decode("utf-8", "replace")[-400:]],
                                   "debug_stderr_tail": se.decode("utf-8", "replace")[-400:],
                                   "note": "without --minimal: `lace debug --command SCRIPT` and `lace run` must give the same standard output and exit status"})
    return {"sessions": len(metas) - skipped, "skipped_nonterminating": skipped, "mismatches": bad}


def flag_positions(ctx, violations):
    """`lace [FLAGS] run P [FLAGS]` against `lace [FLAGS] debug P [FLAGS] --command SCRIPT` for every place the feature flag can
    stand (before the sub-command, after it, both, neither), on programs that need the stack extension and programs that do
    not: however the process was configured, the debugged run prints and returns what the plain run does."""
    import os
    import clicommon
    exe = ctx.cli()
    d = clicommon.fresh_dir(ctx, "c09flags")
    progs = {"stack.asm": "lea r0 m\npush r0\npop r1\nadd r0 r1 #0\nputs\ncall f\nhalt\nf ld r0 c\nout\nrets\nc .fill x21\nm .stringz \"ok\"\n",
             "plain.asm": "lea r0 m\nputs\njsr f\nhalt\nf ld r0 c\nout\nret\nc .fill x21\nm .stringz \"ok\"\n",
             "raw.asm": "add r0 r0 #1\n.fill xD040\nputn\nhalt\n"}
    for nm, text in progs.items():
        open(os.path.join(d, nm), "w").write(text)
    n = bad = 0
    for pre in ([], ["-f", "stack"], ["--features=stack"], ["-f", ""]):
        for post in ([], ["-f", "stack"], ["-f", ""]):
            for nm in progs:
                for script in ("continue", "step\nstep\nregisters\ncontinue", "break add f\ncontinue\nbreak list\ncontinue"):
                    for mini in (["--minimal"], []):
                        plain = clicommon.run_cli(exe, pre + ["run", nm] + mini + post, d)
                        dbg = clicommon.run_cli(exe, pre + ["debug", nm] + mini + post + ["--command", script], d)
                        n += 1
                        if (plain[0], plain[1]) != (dbg[0], dbg[1]):
                            bad += 1
                            if bad <= 4:
                                violations.append({"kind": "flag-position-run-vs-debug", "run": ["lace"] + pre + ["run", nm] + mini + post,
                                                   "debug": ["lace"] + pre + ["debug", nm] + mini + post + ["--command", script], "source": text,
                                                   "run_result": [plain[0], plain[1].decode("utf-8", "replace")[-300:]],
                                                   "debug_result": [dbg[0], dbg[1].decode("utf-8", "replace")[-300:]], "debug_stderr": dbg[2].decode("utf-8", "replace")[-300:]})
    return {"sessions": n, "mismatches": bad}


def very_long_run(ctx, violations):
    """Thorough tier only (about ten minutes of machine time): a terminating program that executes more than 2^32
    instructions, plain and under the debugger with one `continue` - every counter the debugger keeps per instruction is
    driven past 32 bits.  Same exit status and output required."""
    import os, subprocess, concurrent.futures
    import clicommon
    exe = ctx.cli()
    d = clicommon.fresh_dir(ctx, "c09long")
    open(os.path.join(d, "long32.asm"), "w").write(
        ".orig x3000\nld r2 outer\nloop2 and r1 r1 #0\nloop1 add r1 r1 #-1\nbrnp loop1\nadd r2 r2 #-1\nbrnp loop2\nlea r0 msg\nputs\nhalt\nouter .fill x8001\nmsg .stringz \"done\"\n")
    def go(args):
        try:
            p = subprocess.run([exe] + args, cwd=d, stdin=subprocess.DEVNULL, stdout=subprocess.PIPE, stderr=subprocess.PIPE, timeout=3600,
                               env=dict(os.environ, NO_COLOR="1", RUST_BACKTRACE="0"))
            return p.returncode, clicommon.program_output(p.stdout), p.stderr[-300:].decode("utf-8", "replace")
        except subprocess.TimeoutExpired:
            return -9, None, "timeout after 3600 s"
    with concurrent.futures.ThreadPoolExecutor(2) as pool:
        a = pool.submit(go, ["run", "long32.asm", "--minimal"]); b = pool.submit(go, ["debug", "long32.asm", "--minimal", "--command", "continue"])
        plain, dbg = a.result(), b.result()
    ok = plain[0] == dbg[0] == 0 and plain[1] == dbg[1]
    if not ok:
        violations.append({"kind": "very-long-run", "program": "nested countdown, 2^32 + 196,613 instructions, then PUTS \"done\"", "script": "continue (then end of input)",
                           "plain": list(plain), "debugged": list(dbg)})
    return {"instructions": "more than 2^32", "plain_exit": plain[0], "debugged_exit": dbg[0], "equal": ok}


def replay(ctx, payload):
    return dbgcommon.replay_dbg(ctx, payload)
