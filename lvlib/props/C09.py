"""C09 — the debugger is transparent to the program."""
import random
import dbggen, dbgcommon

# observations the property does not speak about: a difference in these alone breaks the correspondence
# but is not an input on which the property fails (reported with no-failing-input-found)
AUX = ('debugger output differs', 'cmds differs', 'attached differs', 'bps differs')

ASSUMPTIONS = [
    "one stream, two readers: when the script does not end in quit/exit the program gets no console input (the debugger's stdin reader would consume it as commands)",
    "commands reach the model parsed (the command language is C14's); the script text is rendered canonically from the same values",
    "sessions that exceed the iteration budget on either side are skipped (counted in skipped_for_budget)",
]


def gen(tier, seed):
    rnd = random.Random(seed)
    n = 1500 if tier == "quick" else 200000
    specs, pairs = [], []
    for i in range(n):
        p = dbggen.PROGRAMS[i % len(dbggen.PROGRAMS)]
        src, feat = p(rnd)
        if rnd.random() < 0.15:
            feat = 1 - feat
        orig = dbggen.origin_of(src)
        inp = [rnd.choice([0x41, 0x0A, 0x80, 0x31]) for _ in range(2)] if (p is dbggen.p_io and rnd.random() < 0.6) else []
        cmds = dbggen.gen_script(rnd, dbggen.READONLY, orig, 14, maxlen=30, end=("quit" if inp else rnd.choice(["quit", "eof"])))
        specs.append((p.__name__, feat, src, inp, cmds))
        specs.append(("plain:" + p.__name__, feat, src, inp, [("quit",)] if inp else []))
        pairs.append((len(specs) - 2, len(specs) - 1))
    return rnd, specs, pairs


def correspondence(ctx, violations, known_hits):
    rnd, specs, pairs = gen(ctx.tier, ctx.seed)
    cases, tags = dbgcommon.make_cases(rnd, specs)
    profiles = ("debug",) if ctx.tier == "quick" else ("debug", "release")
    r = dbgcommon.run_dbg_cases(ctx, cases, tags, violations, profiles, aux=AUX,
                                note="model: a read-only script never changes the machine (C09_transparent)")
    # direct: the implementation's debugged run vs its own plain run
    ri, _ = r["results"]["debug"]
    direct, bad = 0, 0
    for a, b in pairs:
        fa, _ = dbgcommon.impl_fields(ri[a]) if ri[a] else (None, None)
        fb, _ = dbgcommon.impl_fields(ri[b]) if ri[b] else (None, None)
        if not fa or not fb or fa["kind"] == 4 or fb["kind"] == 4:
            continue
        direct += 1
        same = all(fa[k] == fb[k] for k in ("kind", "code", "pc", "cc", "regs", "out", "inpleft", "mem"))
        if not same:
            bad += 1
            if bad <= 5:
                violations.append({"kind": "debugged-run-differs-from-plain-run", "case": cases[a], "plain_case": cases[b],
                                   "debugged": ri[a][0], "plain": ri[b][0]})
    real = dbgcommon.cli_cross(ctx, specs, violations, limit=(60 if ctx.tier == "quick" else 1500))
    r["evaluations"] += real.get("sessions", 0)
    real["shared_stdin"] = dbgcommon.cli_shared_stream(ctx, violations, n=(24 if ctx.tier == "quick" else 400))
    ctx.cleanup()
    return dbgcommon.coverage(r,
        "programs (loops, nested JSR/RET, CALL/RETS recursion, push/pop, self-modifying, ending in each exception, HALT in the "
        "middle, .break directives, console I/O, tight loops, no HALT, high origin) x random scripts (length <= 30) over "
        "{step, step into k, step out, continue, break add/remove/list a, print, registers, assembly, echo, help} with valid and "
        "invalid arguments, ended by quit or end of input; each session vs the model AND vs the implementation's own plain run "
        "(final registers, PC, CC, all memory, program output, remaining input, exit status)", profiles,
        direct_comparisons=direct, direct_mismatches=bad, real_binary_without_hooks=real)


def replay(ctx, payload):
    return dbgcommon.replay_dbg(ctx, payload)
