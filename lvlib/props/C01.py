"""C01 — the assembled image is the ISA encoding of the source; layout never changes it."""
import os, random
import asmgen, asmcommon, clicommon
from core import log
from props import C06

# parts of an assembly result the property does not speak about: a difference in these alone breaks the
# correspondence but is not an input on which the property fails (reported with no-failing-input-found)
AUX = ('bps', 'spans')

ASSUMPTIONS = [
    "a numeric literal denotes a 16-bit value (#65535, xFFFF and #-1 are the same operand), as the lexer documents",
    ".blkw with a negative decimal count and .stringz characters above U+FFFF are outside 'documented data words'",
]


def operand_sweep():
    R = range(8)
    out = []
    for m in ("add", "and"):
        out.append((0, "".join(f"{m} r{d} r{a} r{b}\n" for d in R for a in R for b in R)))
        out.append((0, "".join(f"{m} r{d} r{a} #{i}\n" for d in R for a in R for i in range(-16, 16))))
    out.append((0, "".join(f"not r{d} r{a}\n" for d in R for a in R) + "".join(f"jmp r{a}\njsrr r{a}\n" for a in R) + "ret\nrti\n"
                + "".join(f"trap x{v:X}\n" for v in range(256)) + "getc\nout\nputs\nin\nputsp\nhalt\nputn\nreg\n"))
    for m in ("ldr", "str"):
        out.append((0, "".join(f"{m} r{d} r{a} #{o}\n" for d in R for a in R for o in range(-32, 32))))
    out.append((1, "".join(f"push r{a}\npop r{a}\n" for a in R) + "rets\n"))
    # `call` takes a label only: every distance of its 10-bit field through 1,023 calls around one label
    out.append((1, "call mid\n" * 512 + "mid halt\n" + "call mid\n" * 511))
    out.append((0, "jsr mid\n" * 1024 + "mid halt\n" + "jsr mid\n" * 1023))
    out.append((0, "ld r3 mid\n" * 256 + "mid halt\n" + "st r5 mid\n" * 255))
    # literal PC offsets: the statement index must stay >= the offset's reach, so each form is preceded by padding
    for m in ("br", "brn", "brz", "brp", "brnz", "brnp", "brzp", "brnzp"):
        out.append((0, ".blkw #300\n" + "".join(f"{m} #{o}\n" for o in range(-256, 256))))
    for m in ("ld", "ldi", "lea", "st", "sti"):
        out.append((0, ".blkw #300\n" + "".join(f"{m} r{d} #{o}\n" for d in R for o in range(-256, 256))))
    out.append((0, ".blkw #1100\n" + "".join(f"jsr #{o}\n" for o in range(-1024, 1024))))
    return out


def gen_cases(tier, seed):
    rnd = random.Random(seed)
    n = 1500 if tier == "quick" else 100000
    k_layouts = 3 if tier == "quick" else 8
    cases, tags = [], []
    # corpus: witnesses of repaired defects
    for feat, text in [(0, "ldr r0 r1 #-1\nstr r2 r4 #-32\n"), (0, "add r0 r0 r1;c\nadd r0 r0 #1;c\n.fill x3000;c\n"),
                       (0, ".orig x8000\nhalt\n"), (0, "trap x80\ntrap xFF\n"), (0, "halt\n"),
                       (0, "a .blkw #3\nbr a\nbrnzp #-2\n")]:
        cases.append(asmgen.asm_case(feat, [(1, text)])); tags.append("corpus")
    # every string of length <= 4 over {backslash, n, t, quote, a}: the whole escape table of .stringz
    import itertools
    for L in range(0, 5 if tier == "quick" else 6):
        for combo in itertools.product("\\nt\"a", repeat=L):
            body = "".join(combo)
            cases.append(asmgen.asm_case(0, [(1, '.stringz "' + body + '"\nhalt\n')])); tags.append("stringz-exhaustive")
    # far label references: every PC-relative form with its target at the edge of its field's reach and beyond, forward and
    # backward (the padding is .blkw): accepted ones must carry exactly target - (address + 1) in the field
    for m, nb, feat in (("br", 9, 0), ("ld r1", 9, 0), ("lea r2", 9, 0), ("st r3", 9, 0), ("sti r4", 9, 0), ("ldi r5", 9, 0),
                        ("jsr", 11, 0), ("call", 10, 1)):
        lim = 1 << (nb - 1)
        for d in (lim - 2, lim - 1, lim, lim + 1, 2 * lim - 1, 2 * lim, 3 * lim):
            cases.append(asmgen.asm_case(feat, [(1, f"{m} far\n.blkw #{d}\nfar halt\n")])); tags.append("far-forward")
            cases.append(asmgen.asm_case(feat, [(1, f"far halt\n.blkw #{d}\n{m} far\n")])); tags.append("far-backward")
    # the data directives at the extremes of their operands, in every spelling of the operand: the number of words a
    # `.blkw` reserves is its operand read as an UNSIGNED 16-bit number; the word a `.fill` stores is the operand's pattern
    for v in (0, 1, 2, 32767, 32768, 32769, 40000, 65534):
        for sp in ("#%d" % v, "x%X" % v, "0x%x" % v, "%d" % v) + (("#-%d" % (65536 - v),) if v >= 32768 else ()):
            cases.append(asmgen.asm_case(0, [(1, f".orig x0\na add r0 r0 #1\n.blkw {sp}\nb .fill xBEEF\n")])); tags.append("blkw-extreme")
            cases.append(asmgen.asm_case(0, [(1, f".orig x0\n.fill {sp}\nhalt\n")])); tags.append("fill-extreme")
    # labels that differ ONLY in letter case are different labels: three definitions and a reference to each, in EVERY order
    # of the six statements (a reference resolved while only some of the twins are known must still find its own label)
    import itertools as _it
    parts = [("d", "Loop"), ("d", "loop"), ("d", "LOOP"), ("r", "Loop"), ("r", "loop"), ("r", "LOOP")]
    for k, perm in enumerate(_it.permutations(parts)):
        ref = ("br", "ld r1", "lea r2", "jsr", "st r3", "sti r4")[k % 6]
        text = "".join((f"{nm} add r0 r0 #1\n" if kind == "d" else f"{ref} {nm}\n") for kind, nm in perm)
        cases.append(asmgen.asm_case(0, [(1, text)])); tags.append("case-twins")
    # EXHAUSTIVE operand sweep: every operand combination of every form without a label operand, and every literal
    # offset of every PC-relative form (one source per form; the i-th word must be the encoding of the i-th statement)
    for feat, text in operand_sweep():
        cases.append(asmgen.asm_case(feat, [(1, text)])); tags.append("operand-sweep")
    for i in range(n):
        stack = rnd.random() < 0.3
        items = asmgen.gen_program(rnd, stack=stack)
        for style in (["random"] * k_layouts + ["commas", "colons", "comments", "plain"]):
            kw = "upper" if style == "plain" and rnd.random() < 0.5 else None
            text = asmgen.render(rnd, items, style=style, kwcase=kw)
            cases.append(asmgen.asm_case(1 if stack else rnd.randrange(2), [(1, text)]))
            tags.append("layout-" + style)
    return cases, tags


def correspondence(ctx, violations, known_hits):
    cases, tags = gen_cases(ctx.tier, ctx.seed)
    profiles = ("debug",) if ctx.tier == "quick" else ("debug", "release")
    r = asmcommon.run_asm_cases(ctx, cases, tags, violations, profiles, aux=AUX,
                                prop_note="MODEL = SPEC on accepted programs is proved (C01 theorems); an accepted image that differs is a wrong encoding")
    sweep = sorted(str(x[1:]) for x in r["sigs"] if x[0] == "operand-sweep")
    if any("'ok'" not in x for x in sweep):
        violations.append({"kind": "operand-sweep-source-not-accepted", "no_failing_input": True, "outcomes": sweep})
    cli = compile_stage(ctx, violations)
    ctx.cleanup()
    return {
        "evaluations": r["evaluations"] + cli["compiles"], "real_binary_compile": cli, "operand_sweep_outcomes": sweep, "distinct_nontrivial": len(r["sigs"]),
        "rule": "case-twin labels (Loop / loop / LOOP) defined and referenced in all 720 orders; EXHAUSTIVE operand sweep (every register/immediate/offset6/trap-vector combination of every form without a label operand; every literal offset of every 9-/10-/11-bit PC-relative form: 50k statements); random valid programs over the whole instruction/trap/directive set (labels before/after/on the use, "
                "literal PC offsets at the field extremes, origins at the 16-bit boundaries, .break placements), each rendered "
                "in several random layouts (keyword case, r/R, #dec/#unsigned/xHEX/0xHEX/x-HEX/leading zeros/+, "
                "spaces/tabs/commas/colons/CRLF/FF, comments incl. abutting and multi-byte) plus all-commas, all-colons, "
                "comment-after-every-token and plain layouts; compared: origin, every word, breakpoints, statement spans; "
                "distinct = distinct (layout, outcome class, min(words,4), min(breakpoints,2))",
        "outcome_histogram": r["hist"], "samples": r["samples"], "mismatches": r["mismatches"],
        "diagnostic_class_differs": r["diag_differs"], "profiles": list(profiles),
    }


def compile_stage(ctx, violations):
    """The user-facing observation point: the bytes `lace compile` leaves at its destination.  Each program is compiled by
    the real binary in every layout, one after the other ONTO THE SAME destination (as after an edit of the source), the
    first time onto a file that already holds a longer object file: after every compile the file must be exactly the
    model's image of that text - origin word, then one big-endian word per statement, nothing else."""
    exe = ctx.cli()
    rnd = random.Random(ctx.seed + 101)
    nprog = 40 if ctx.tier == "quick" else 600
    progs = []
    for i in range(nprog):
        stack = rnd.random() < 0.3
        items = asmgen.gen_program(rnd, stack=stack, want_valid=True)
        texts = [asmgen.render(rnd, items, style=st, kwcase=("upper" if st == "plain" else None)) for st in ("random", "commas", "comments", "plain")]
        # a shorter edit of the same program at the end of the chain: the file must shrink with it
        texts.append("halt\n")
        progs.append((1 if stack else 0, texts))
    flat = [(f, t) for f, ts in progs for t in ts]
    model = ctx.run_model([C06.obj_case(f, t) for f, t in flat], tag="c01obj")
    d = clicommon.fresh_dir(ctx, "c01cli")
    stale = bytes.fromhex("3000" + "f026" * 200 + "f025")

    def job(pi):
        def run():
            feat, texts = progs[pi]
            sub = os.path.join(d, str(pi)); os.makedirs(sub, exist_ok=True)
            dest = os.path.join(sub, "out.lc3")
            open(dest, "wb").write(stale)
            out = []
            for k, t in enumerate(texts):
                with open(os.path.join(sub, "p.asm"), "w", encoding="utf-8", newline="") as fh:
                    fh.write(t)
                before = open(dest, "rb").read() if os.path.exists(dest) else None
                rc, so, se = clicommon.run_cli(exe, ["compile", "p.asm", "out.lc3"] + (["-f", "stack"] if feat else []), sub)
                after = open(dest, "rb").read() if os.path.exists(dest) else None
                out.append((rc, before, after))
            return out
        return run

    res = clicommon.parallel([job(i) for i in range(len(progs))])
    n, bad, base = 0, 0, 0
    for pi, outs in enumerate(res):
        feat, texts = progs[pi]
        for k, (rc, before, after) in enumerate(outs):
            mo = [int(x, 16) for x in model[base + k][0].split()]
            want = bytes(mo[2:2 + mo[1]]) if mo[0] == 0 else None
            n += 1
            good = (rc == 0 and want is not None and after == want) or (rc != 0 and want is None and after == before)
            if not good:
                bad += 1
                if bad <= 4:
                    violations.append({"kind": "compiled-object-differs", "feature_stack": feat, "source": texts[k], "step_in_chain": k,
                                       "exit": rc, "destination_before": before.hex()[:400] if before is not None else None,
                                       "destination_after": after.hex()[:400] if after is not None else None,
                                       "model_exit": mo[0], "model_bytes": want.hex()[:400] if want is not None else None})
        base += len(texts)
    return {"programs": len(progs), "compiles": n, "mismatches": bad,
            "rule": "real `lace compile` of each program in 4 layouts + a shorter edit, successively onto one destination that first holds a longer object file; destination bytes vs the model's image"}


def replay(ctx, payload):
    if payload.get("kind") == "compiled-object-differs":
        log(str({k: payload.get(k) for k in ("kind", "step_in_chain", "exit", "destination_after", "model_bytes")}))
        return 1
    return asmcommon.replay_asm(ctx, payload)
