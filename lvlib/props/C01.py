"""C01 — the assembled image is the ISA encoding of the source; layout never changes it."""
import random
import asmgen, asmcommon
from core import log

# parts of an assembly result the property does not speak about: a difference in these alone breaks the
# correspondence but is not an input on which the property fails (reported with no-failing-input-found)
AUX = ('bps', 'spans')

ASSUMPTIONS = [
    "a numeric literal denotes a 16-bit value (#65535, xFFFF and #-1 are the same operand), as the lexer documents",
    ".blkw with a negative decimal count and .stringz characters above U+FFFF are outside 'documented data words'",
]


def gen_cases(tier, seed):
    rnd = random.Random(seed)
    n = 1500 if tier == "quick" else 100000
    k_layouts = 3 if tier == "quick" else 8
    cases, tags = [], []
    # corpus: witnesses of repaired defects
    for feat, text in [(0, "ldr r0 r1 #-1\nstr r2 r4 #-32\n"), (0, "add r0 r0 r1;c\nadd r0 r0 #1;c\n.fill x3000;c\n"),
                       (0, ".orig x8000\nhalt\n"), (0, "trap x80\ntrap xFF\n"), (0, "halt\n"),
                       (0, "a .blkw #3\nbr a\nbrnzp #-2\n")]:
        cases.append(asmgen.asm_case(feat, [(1, text)])); tags.append("corpus")
    # every string of length <= 4 over {backslash, n, t, quote, a}: the whole escape table of .stringz
    import itertools
    for L in range(0, 5 if tier == "quick" else 6):
        for combo in itertools.product("\\nt\"a", repeat=L):
            body = "".join(combo)
            cases.append(asmgen.asm_case(0, [(1, '.stringz "' + body + '"\nhalt\n')])); tags.append("stringz-exhaustive")
    # far label references: every PC-relative form with its target at the edge of its field's reach and beyond, forward and
    # backward (the padding is .blkw): accepted ones must carry exactly target - (address + 1) in the field
    for m, nb, feat in (("br", 9, 0), ("ld r1", 9, 0), ("lea r2", 9, 0), ("st r3", 9, 0), ("sti r4", 9, 0), ("ldi r5", 9, 0),
                        ("jsr", 11, 0), ("call", 10, 1)):
        lim = 1 << (nb - 1)
        for d in (lim - 2, lim - 1, lim, lim + 1, 2 * lim - 1, 2 * lim, 3 * lim):
            cases.append(asmgen.asm_case(feat, [(1, f"{m} far\n.blkw #{d}\nfar halt\n")])); tags.append("far-forward")
            cases.append(asmgen.asm_case(feat, [(1, f"far halt\n.blkw #{d}\n{m} far\n")])); tags.append("far-backward")
    # the data directives at the extremes of their operands, in every spelling of the operand: the number of words a
    # `.blkw` reserves is its operand read as an UNSIGNED 16-bit number; the word a `.fill` stores is the operand's pattern
    for v in (0, 1, 2, 32767, 32768, 32769, 40000, 65534):
        for sp in ("#%d" % v, "x%X" % v, "0x%x" % v, "%d" % v) + (("#-%d" % (65536 - v),) if v >= 32768 else ()):
            cases.append(asmgen.asm_case(0, [(1, f".orig x0\na add r0 r0 #1\n.blkw {sp}\nb .fill xBEEF\n")])); tags.append("blkw-extreme")
            cases.append(asmgen.asm_case(0, [(1, f".orig x0\n.fill {sp}\nhalt\n")])); tags.append("fill-extreme")
    for i in range(n):
        stack = rnd.random() < 0.3
        items = asmgen.gen_program(rnd, stack=stack)
        for style in (["random"] * k_layouts + ["commas", "colons", "comments", "plain"]):
            kw = "upper" if style == "plain" and rnd.random() < 0.5 else None
            text = asmgen.render(rnd, items, style=style, kwcase=kw)
            cases.append(asmgen.asm_case(1 if stack else rnd.randrange(2), [(1, text)]))
            tags.append("layout-" + style)
    return cases, tags


def correspondence(ctx, violations, known_hits):
    cases, tags = gen_cases(ctx.tier, ctx.seed)
    profiles = ("debug",) if ctx.tier == "quick" else ("debug", "release")
    r = asmcommon.run_asm_cases(ctx, cases, tags, violations, profiles, aux=AUX,
                                prop_note="MODEL = SPEC on accepted programs is proved (C01 theorems); an accepted image that differs is a wrong encoding")
    # layout independence, checked on the model's own answers is implied by equality with the model;
    ctx.cleanup()
    return {
        "evaluations": r["evaluations"], "distinct_nontrivial": len(r["sigs"]),
        "rule": "random valid programs over the whole instruction/trap/directive set (labels before/after/on the use, "
                "literal PC offsets at the field extremes, origins at the 16-bit boundaries, .break placements), each rendered "
                "in several random layouts (keyword case, r/R, #dec/#unsigned/xHEX/0xHEX/x-HEX/leading zeros/+, "
                "spaces/tabs/commas/colons/CRLF/FF, comments incl. abutting and multi-byte) plus all-commas, all-colons, "
                "comment-after-every-token and plain layouts; compared: origin, every word, breakpoints, statement spans; "
                "distinct = distinct (layout, outcome class, min(words,4), min(breakpoints,2))",
        "outcome_histogram": r["hist"], "samples": r["samples"], "mismatches": r["mismatches"],
        "diagnostic_class_differs": r["diag_differs"], "profiles": list(profiles),
    }


def replay(ctx, payload):
    return asmcommon.replay_asm(ctx, payload)
