"""C05 — the assembler is total: any text yields an image or a diagnostic (never a panic/hang)."""
import random
import asmgen, asmcommon

# parts of an assembly result the property does not speak about: a difference in these alone breaks the
# correspondence but is not an input on which the property fails (reported with no-failing-input-found)
AUX = ('bps', 'image', 'verdict')

ASSUMPTIONS = [
    "miette's rendering of a diagnostic is third-party code: exercised on every rejection (format!(\"{:?}\")), not modelled",
    "allocation limits / stack depth for huge inputs are outside the model",
    "a hang shows as the harness timing out (the run is bounded by the orchestrator's timeout)",
]

WITNESSES = ["xé", "add r0 .fill x1", "add .break", "br #-2", "jsr #-1025", "add r0 r0 r1;c", "ré", "0é",
             "#é", ".é", "é", "\U0001F600", "x\U0001F600 halt", "\"", "\"abc", "\"a\\", "\"a\\\nb\"", ".stringz \"\\",
             ".stringz", ".fill", ".blkw", ".orig", "trap", "add", "add r0", "add r0 r1", "label", "label label2 halt",
             ".end", ".END halt", "halt .end `", "\x00", "r0\x00", "r1\x00 halt", "add r0 r0 r1\x00", "x", "0x", "#", "x-", "X+",
             "#-", "x10000", "#65536", "#-32769", "x-8001", "xFFFFFg", "0xg", ".orig x3000 .orig x3000", "a a halt",
             ".blkw #-1", ".blkw #-65535\nhalt", ".stringz \"\U0001F600\"", ".fill \"s\"", ".blkw r0", ".stringz #1",
             "ldr r0 r1", "ldr r0 r1 lbl", "call", "push", "rets r0", "jsrr #1", "jmp lbl", "not r0", "st r0", "\t,:,;\n",
             ", : , :", "\r\n\r\n", "\x0c\x0b", "halt;", ";", "; é", "lbl:", "lbl: halt", ":lbl halt", "r8 halt", "r77 halt",
             "add r0, r0, 4294967295", "add r0, r0, 4294967296", "add r0 r0 99999999999999999999", "lbl 123456789012345678901234567890", "ldr r0 r1 18446744073709551616",
             "0 halt", "00000000000000000000000000000000000000001 halt", "str r1 r2 340282366920938463463374607431768211456", "trap 4294967296", ".orig 4294967296", ".fill 99999999999", ".blkw 18446744073709551615",
             "R0 halt", "x3000 halt", "#1 halt", "\"s\" halt", ".break", ".break .break halt", "l .break", "l .break halt br l"]


def big_cases():
    out = []
    out.append(".blkw xFFFF\n.blkw xFFFF\n.blkw xFFFF\nhalt\n")
    out.append("a halt\n.blkw x7FFE\nbr a\n")      # distance 0x7FFF+...
    out.append("a halt\n.blkw x7FFF\nbr a\n")      # 0x8000
    out.append("a halt\n.blkw x8000\nbr a\n")      # 0x8001
    out.append("br a\n.blkw x7FFF\na halt\n")
    out.append("br a\n.blkw x8000\na halt\n")
    out.append(".stringz \"" + "ab" * 35000 + "\"\nhalt\n")
    out.append(".blkw xFFFD\nhalt\n")              # 65534 statements: still accepted
    out.append(".blkw xFFFE\nhalt\n")              # 65535: rejected (line counter limit)
    out.append(".blkw xFFFE\n")
    out.append("halt\n" * 70)
    # long runs of what the lexer SKIPS or swallows whole: no depth of recursion, no quadratic rescanning may hide here
    out.append("; c\n" * 120000 + "halt\n")
    out.append("\n" * 200000 + "halt\n")
    out.append(";" + "x" * 500000 + "\nhalt\n")
    out.append(" " * 500000 + "halt")
    out.append("halt ; c\n" * 60000)
    out.append(", : ,\t" * 80000 + "halt")
    out.append("a" * 300000 + " halt\n")
    out.append("x" + "1" * 100000 + "\n")
    out.append("#" + "9" * 100000 + " halt\n")
    out.append('.stringz "' + '\\"' * 60000 + '"\nhalt\n')
    out.append("l" + "\nl".join(str(i) for i in range(30000)) + " halt\n")      # 30,000 labels in a row: rejected (label before label)
    return out


def gen_cases(tier, seed):
    rnd = random.Random(seed)
    n = 20000 if tier == "quick" else 1500000
    cases, tags = [], []

    def add(tag, text, feat=None):
        f = rnd.randrange(2) if feat is None else feat
        cases.append(asmgen.asm_case(f, [(1, text)])); tags.append(tag)

    for w in WITNESSES:
        add("corpus", w); add("corpus", w + "\n"); add("corpus", "halt\n" + w + " halt\n")
    for b in big_cases():
        add("size", b, 0)
    base = []
    for i in range(60):
        items = asmgen.gen_program(rnd, stack=rnd.random() < 0.4, nstmts=rnd.choice([1, 2, 3, 5]))
        base.append(asmgen.render(rnd, items, style=rnd.choice(["plain", "random", "commas"])))
    for i in range(n):
        text = rnd.choice(base)
        for _ in range(rnd.choice([1, 1, 2, 3, 5])):
            text = asmgen.mutate(rnd, text)
        add("mutant", text)
    # a multi-byte character at every token position of a few programs
    for text in base[:10]:
        toks = text.split(" ")
        for i in range(len(toks) + 1):
            for ch in ("é", "日", "\U0001F600"):
                add("multibyte-pos", " ".join(toks[:i] + [ch] + toks[i:]))
                if i < len(toks):
                    add("multibyte-abut", " ".join(toks[:i] + [toks[i] + ch] + toks[i + 1:]))
                    add("multibyte-abut", " ".join(toks[:i] + [ch + toks[i]] + toks[i + 1:]))
    # truncation: every prefix of a few sources — a file may end anywhere: inside a mnemonic, right after a directive,
    # after the opening quote of a string, inside an escape, inside a multi-byte character's neighbourhood ...
    samples = [
        '.orig x3000\nlea r0 msg\nputs\nhalt\nmsg .stringz "hi\\n\\"q\\"" ; c\n.fill x-1\n.blkw #2\n.end\n',
        'lbl: ADD R1,R1,#-16\n  brnzp lbl\n ld r7 , x0FF\ntrap x25\n.break\nstr r1 r2 #-32\n',
        'a .stringz "é日"\nb .fill #65535\njsr a\nputsp\n',
    ] + base[:3]
    for text in samples:
        for k in range(len(text) + 1):
            add("truncated", text[:k])
            if k % 3 == 0:
                add("truncated", text[:k] + "\n")
    return cases, tags


def real_binary_sizes(ctx, violations):
    """The size extremes through the REAL binary under the ordinary 8 MiB stack (the in-process runs have an unlimited one):
    `lace check` must end with the model's verdict - success or a diagnostic - not with a stack overflow, an abort or a hang."""
    import os, subprocess
    import clicommon
    from props import C06
    exe = ctx.cli()
    d = clicommon.fresh_dir(ctx, "c05sizes")
    texts = big_cases()
    model = ctx.run_model([C06.obj_case(0, t) for t in texts], tag="c05sizes")
    def job(i):
        def run():
            f = os.path.join(d, "s%d.asm" % i)
            with open(f, "w", encoding="utf-8", newline="") as fh:
                fh.write(texts[i])
            try:
                p = subprocess.run(["bash", "-c", "ulimit -s 8192; exec \"$0\" check \"$1\"", exe, f], stdout=subprocess.PIPE, stderr=subprocess.PIPE,
                                   timeout=120, env=dict(os.environ, NO_COLOR="1", RUST_BACKTRACE="0"))
                return p.returncode, p.stderr[-300:].decode("utf-8", "replace")
            except subprocess.TimeoutExpired:
                return -9, "timeout after 120 s"
        return run
    res = clicommon.parallel([job(i) for i in range(len(texts))], workers=8)
    bad = 0
    for i, (rc, err) in enumerate(res):
        me = int(model[i][0].split()[0], 16)
        if rc != me:
            bad += 1
            if bad <= 4:
                violations.append({"kind": "real-binary-size-extreme", "source_head": texts[i][:60], "source_length": len(texts[i]),
                                   "exit": rc, "model_exit": me, "stderr_tail": err})
    return {"runs": len(texts), "mismatches": bad, "rule": "`lace check` (binary without hooks, 8 MiB stack) on every size-extreme source: exit status = the model's verdict"}


def correspondence(ctx, violations, known_hits):
    cases, tags = gen_cases(ctx.tier, ctx.seed)
    profiles = ("debug",) if ctx.tier == "quick" else ("debug", "release")
    r = asmcommon.run_asm_cases(ctx, cases, tags, violations, profiles, aux=AUX,
                                prop_note="the model never panics (C05_total); an implementation panic/crash, or a diagnostic whose span lies outside the source, violates C05")
    real = real_binary_sizes(ctx, violations)
    r["evaluations"] += real["runs"]
    ctx.cleanup()
    return {
        "evaluations": r["evaluations"], "distinct_nontrivial": len(r["sigs"]), "real_binary_size_extremes": real,
        "rule": "fixed corpus (past panics, edge tokens, NUL, multi-byte characters in every token class, unterminated strings, EVERY PREFIX of six sources (a file may end anywhere), "
                "lone backslash) + size extremes (runs of 10^5 comment lines / blank lines / separators, 500k-character comments and blanks, 300k-character identifiers and literals, .blkw xFFFF repeated, label distances 0x7FFF/0x8000/0x8001, 70k-character "
                ".stringz, 65,534/65,535 statements) + seeded token-level and byte-level mutants of grammar-derived programs + "
                "a 2/3/4-byte character at and abutting every token position; every rejection is rendered with miette and its "
                "labelled spans are checked to lie inside the source; distinct = distinct (class, outcome, diagnostic)",
        "outcome_histogram": r["hist"], "samples": r["samples"], "mismatches": r["mismatches"],
        "diagnostic_class_differs": r["diag_differs"], "profiles": list(profiles),
    }


def replay(ctx, payload):
    return asmcommon.replay_asm(ctx, payload)
