"""C08 — compile is all-or-nothing (CLI level, fault injection)."""
import os, random
import clicommon
from core import log
from props import C06

ASSUMPTIONS = [
    "a write that fails half-way is injected with a file-size limit (RLIMIT_FSIZE); a full disk or quota is assumed to fail the same system call the same way. The model's one excluded outcome (WWriteFailTruncated) needs two faults at once: the directory refuses a temporary file AND the direct write fails half-way",
    "running as root: a read-only directory does not make a destination uncreatable, so 'uncreatable' is injected with a missing directory and with a directory in place of the file",
]

OLD = b"previous contents \x00\x01\x02"


def gen(tier, seed):
    rnd = random.Random(seed)
    cases = []
    sizes = [1, 3, 8, 20, 40] if tier == "quick" else [1, 2, 3, 5, 8, 13, 20, 30, 40]
    for n in sizes:
        for pos in range(n + 1):
            for m in (["br", "ld r1", "jsr"] if tier == "quick" else ["br", "ld r1", "lea r2", "st r3", "sti r4", "ldi r5", "jsr"]):
                stmts = ["add r0 r0 #1"] * n
                stmts.insert(pos, f"{m} far")
                cases.append(("emit-error", "\n".join(stmts + [".blkw x900", "far halt"]) + "\n"))
    # the same for programs of every size class: the out-of-range reference (backward over K padding words, or forward)
    # at the first, a middle and the last statement; K just beyond each field's reach so that the TOTAL size sweeps
    # 258 .. 4100 words (no size threshold may exempt a program from being emitted completely before the file is touched)
    for k in ([256, 257, 300, 509, 510, 511, 600, 1023, 1024, 1030, 2050, 4097] if tier == "quick" else list(range(256, 520, 7)) + [600, 1023, 1024, 1025, 2047, 2048, 2049, 4095, 4096, 4097, 9000]):
        for m in ("br", "ld r1", "jsr"):
            if m == "jsr" and k < 1030:
                continue
            cases.append(("emit-error-size", f"far halt\n.blkw #{k}\n{m} far\n"))                       # last statement, backward
            cases.append(("emit-error-size", f"{m} far\n.blkw #{k}\nfar halt\n"))                       # first statement, forward
            cases.append(("emit-error-size", f"add r0 r0 #1\nfar halt\n.blkw #{k}\n{m} far\nadd r0 r0 #1\nhalt\n"))   # middle
    cases.append(("ok", "halt\n")); cases.append(("ok", "a add r0 r0 #1\nbr a\nhalt\n"))
    cases.append(("parse-error", "halt\nadd r0\n")); cases.append(("lex-error", "halt\n`\n"))
    # images that reach or pass the end of the address space: whatever `compile` decides about them (the model
    # says: they assemble), the decision is taken before the destination is touched
    for t in (".orig xFFFF\nadd r0 r0 #1\nhalt\n", ".orig xFFFF\nhalt\n", ".orig xFFFE\nadd r0 r0 #1\nhalt\n",
              ".blkw xCFFE\nadd r0 r0 #1\nhalt\n", ".blkw xCFFF\nadd r0 r0 #1\nhalt\n", ".blkw xD000\nhalt\n",
              ".orig xF000\n.blkw x0FFF\nhalt\nhalt\n", ".orig xFE00\nhalt\n", ".orig x0000\n.blkw xFFFD\nhalt\n",
              ".orig xFFF0\n.stringz \"0123456789abcdefghij\"\n"):
        cases.append(("image-at-end-of-memory", t))
    # sources WITHOUT any statement: the complete object file is the origin word alone, and it has to be written
    for t in ("", "\n", "; nothing but a comment\n", ".orig x4000\n", ".end\n", ".orig x4000\n.end\nadd r0 r0 #1\n", "   \n\t\n", ".orig xFFFF\n",
              ".break\n", "lonely\n.break\n"):
        cases.append(("no-statements", t))
    cases.append(("label-error", "halt\nbr nowhere\n")); cases.append(("ok", ".orig x4000\nlea r0 s\nputs\nhalt\ns .stringz \"x\"\n"))
    return cases


def correspondence(ctx, violations, known_hits):
    exe = ctx.cli()
    cases = gen(ctx.tier, ctx.seed)
    d = clicommon.fresh_dir(ctx, "cli")
    model = ctx.run_model([C06.obj_case(0, t) for _, t in cases], tag="obj")
    # the full device and the missing directory are reached through symbolic links INSIDE the scratch directory (never the
    # real /dev/full: a compile that mistreats its destination must not be able to damage the machine)
    dests = ["absent", "existing", "existing-empty", "existing-prefix", "existing-extended", "devfull", "missingdir", "isdir", "dangling-link",
             "absent-nonutf8-name", "existing-nonutf8-name"]

    def pre_contents(i, dest_kind):
        """What the destination holds before `compile` for the `existing*` kinds: unrelated bytes, nothing, a proper PREFIX
        of the object file this source produces, or that object file followed by stale words."""
        mo = [int(x, 16) for x in model[i][0].split()]
        exp = bytes(mo[2:2 + mo[1]]) if mo[0] == 0 else bytes.fromhex("3000f025")
        return {"existing": OLD, "existing-empty": b"", "existing-prefix": exp[:max(2, len(exp) - 2)],
                "existing-extended": exp + bytes.fromhex("1021f026f025"), "existing-nonutf8-name": OLD}[dest_kind]

    def job(i, dest_kind):
        tag, text = cases[i]
        def run():
            sub = os.path.join(d, f"{i}-{dest_kind}"); os.makedirs(sub, exist_ok=True)
            open(os.path.join(sub, "p.asm"), "w").write(text)
            if dest_kind == "absent":
                dest = os.path.join(sub, "out.lc3")
            elif dest_kind.endswith("nonutf8-name"):
                # a file name that is not valid UTF-8 (bytes xFF xFE): what is printed about it must not decide the outcome
                dest = os.path.join(sub, "o\udcff\udcfe.lc3")
                if dest_kind.startswith("existing"):
                    open(dest, "wb").write(pre_contents(i, dest_kind))
            elif dest_kind.startswith("existing"):
                dest = os.path.join(sub, "out.lc3"); open(dest, "wb").write(pre_contents(i, dest_kind))
            elif dest_kind == "devfull":
                dest = os.path.join(sub, "full"); os.symlink("/dev/full", dest)
            elif dest_kind == "dangling-link":
                dest = os.path.join(sub, "dangling"); os.symlink(os.path.join(sub, "nodir", "x.lc3"), dest)
            elif dest_kind == "missingdir":
                dest = os.path.join(sub, "nodir", "out.lc3")
            else:
                dest = os.path.join(sub, "adir"); os.makedirs(dest, exist_ok=True)
            rc, so, se = clicommon.run_cli(exe, ["compile", "p.asm", dest], sub)
            if dest_kind.startswith("absent") or dest_kind.startswith("existing"):
                after = open(dest, "rb").read() if os.path.exists(dest) else None
            elif dest_kind == "missingdir":
                after = "exists" if os.path.exists(dest) else None
            elif dest_kind == "isdir":
                after = "dir" if os.path.isdir(dest) and not os.listdir(dest) else "changed"
            elif dest_kind == "devfull":
                after = "chardev" if os.path.islink(dest) and os.readlink(dest) == "/dev/full" and len(os.listdir(sub)) == 2 else "changed"
            else:
                after = "link" if os.path.islink(dest) and not os.path.exists(dest) and len(os.listdir(sub)) == 2 else "changed"
            return rc, after
        return run

    jobs, meta = [], []
    for i in range(len(cases)):
        for dk in dests:
            if dk in ("devfull", "missingdir", "isdir", "dangling-link", "existing-empty", "existing-prefix", "existing-extended", "absent-nonutf8-name", "existing-nonutf8-name") and cases[i][0].startswith("emit-error") and i % 7 != 0:
                continue      # destination faults are orthogonal to the failing statement position: sample them
            jobs.append(job(i, dk)); meta.append((i, dk))
    res = clicommon.parallel(jobs)
    ev, nv, sigs, samples, hist = 0, 0, set(), [], {}
    for (i, dk), (rc, after) in zip(meta, res):
        tag, text = cases[i]
        mo = [int(x, 16) for x in model[i][0].split()]
        exp_bytes = bytes(mo[2:2 + mo[1]]) if mo[0] == 0 else None
        ev += 1
        before = pre_contents(i, dk) if dk.startswith("existing") else {"absent": None, "absent-nonutf8-name": None, "devfull": "chardev", "missingdir": None, "isdir": "dir", "dangling-link": "link"}[dk]
        if dk.startswith("absent") or dk.startswith("existing"):
            good = (rc == 0 and mo[0] == 0 and after == exp_bytes) or (rc != 0 and mo[0] != 0 and after == before)
        else:
            good = (rc != 0 and after == before)          # the destination cannot be written: must fail and change nothing
        sig = (tag, dk, rc == 0)
        hist[str(sig)] = hist.get(str(sig), 0) + 1
        if sig not in sigs:
            sigs.add(sig)
            if len(samples) < 6:
                samples.append({"class": tag, "destination": dk, "exit": rc, "source_head": text[:80]})
        if not good:
            nv += 1
            if nv <= 8:
                violations.append({"kind": "not-all-or-nothing", "class": tag, "destination": dk, "source": text, "exit": rc,
                                   "destination_before": before.hex() if isinstance(before, bytes) else before,
                                   "destination_after": after.hex() if isinstance(after, bytes) else after,
                                   "model_exit": mo[0], "model_bytes": exp_bytes.hex() if exp_bytes else None})
    # the reader of `compile`'s STANDARD OUTPUT goes away after the first progress line (`lace compile ... | head -n 1`): whatever
    # that does to the messages, the either/or of the property still has to hold.  The source is a FIFO, so that lace prints
    # its first line, blocks, and gets the program text only after the pipe has lost its reader.
    import subprocess, threading
    pipe_cases = [("ok", "lea r0 s\nputs\nhalt\ns .stringz \"hi\"\n"), ("ok", "halt\n"), ("emit-error", "br far\n.blkw x900\nfar halt\n"), ("parse-error", "add r0\n")]
    for tag, text in pipe_cases:
        mo = [int(x, 16) for x in ctx.run_model([C06.obj_case(0, text)], tag="objpipe")[0][0].split()]
        exp_bytes = bytes(mo[2:2 + mo[1]]) if mo[0] == 0 else None
        for dk in ("absent", "existing"):
            sub = os.path.join(d, f"pipe-{tag}-{dk}-{len(text)}"); os.makedirs(sub, exist_ok=True)
            fifo = os.path.join(sub, "p.asm"); os.mkfifo(fifo)
            dest = os.path.join(sub, "out.lc3")
            if dk == "existing":
                open(dest, "wb").write(OLD)
            r, w = os.pipe()
            p = subprocess.Popen([exe, "compile", "p.asm", "out.lc3"], cwd=sub, stdout=w, stderr=subprocess.DEVNULL, stdin=subprocess.DEVNULL,
                                 env=dict(os.environ, NO_COLOR="1", RUST_BACKTRACE="0"))
            os.close(w)
            first = b""
            while not first.endswith(b"\n"):
                ch = os.read(r, 1)
                if not ch:
                    break
                first += ch
            os.close(r)                                   # from here on stdout is a pipe without a reader
            def feed():
                with open(fifo, "w") as f:
                    f.write(text)
            t = threading.Thread(target=feed, daemon=True); t.start()
            try:
                rc = p.wait(timeout=20)
            except subprocess.TimeoutExpired:
                p.kill(); rc = -9
            t.join(timeout=2)
            after = open(dest, "rb").read() if os.path.exists(dest) else None
            before = OLD if dk == "existing" else None
            ev += 1
            good = (rc == 0 and exp_bytes is not None and after == exp_bytes) or (rc != 0 and after == before)
            sigs.add(("stdout-closes", tag, dk, rc == 0))
            if not good:
                nv += 1
                violations.append({"kind": "not-all-or-nothing", "class": tag, "destination": dk, "fault": "the reader of compile's stdout went away after the first line",
                                   "source": text, "exit": rc, "destination_before": before.hex() if before else None,
                                   "destination_after": after.hex() if after is not None else None, "model_exit": mo[0]})
    # the process's WORKING DIRECTORY has been removed under it (getcwd fails); source and destination are given by absolute path
    for tag, text in (("ok", "lea r0 s\nputs\nhalt\ns .stringz \"hi\"\n"), ("parse-error", "add r0\n")):
        mo = [int(x, 16) for x in ctx.run_model([C06.obj_case(0, text)], tag="objcwd")[0][0].split()]
        exp_bytes = bytes(mo[2:2 + mo[1]]) if mo[0] == 0 else None
        for dk in ("absent", "existing"):
            sub = os.path.join(d, f"cwd-{tag}-{dk}"); os.makedirs(sub, exist_ok=True)
            gone = os.path.join(sub, "gone"); os.makedirs(gone, exist_ok=True)
            srcp = os.path.join(sub, "p.asm"); open(srcp, "w").write(text)
            dest = os.path.join(sub, "out.lc3")
            if dk == "existing":
                open(dest, "wb").write(OLD)
            def vanish(g=gone):
                os.chdir(g); os.rmdir(g)
            p = subprocess.run([exe, "compile", srcp, dest], stdout=subprocess.DEVNULL, stderr=subprocess.DEVNULL, stdin=subprocess.DEVNULL,
                               env=dict(os.environ, NO_COLOR="1", RUST_BACKTRACE="0"), preexec_fn=vanish, timeout=20)
            after = open(dest, "rb").read() if os.path.exists(dest) else None
            before = OLD if dk == "existing" else None
            ev += 1
            sigs.add(("cwd-gone", tag, dk, p.returncode == 0))
            good = (p.returncode == 0 and exp_bytes is not None and after == exp_bytes) or (p.returncode != 0 and after == before)
            if not good:
                nv += 1
                violations.append({"kind": "not-all-or-nothing", "class": tag, "destination": dk, "fault": "the working directory was removed (getcwd fails); absolute paths",
                                   "source": text, "exit": p.returncode, "destination_before": before.hex() if before else None,
                                   "destination_after": after.hex() if after is not None else None, "model_exit": mo[0]})
    # the destination CAN be created but NOT completely written: a file-size limit of 1 KiB (RLIMIT_FSIZE, SIGXFSZ ignored, as a
    # full disk or quota would do) and an image of 2 KiB - absent and pre-existing regular destinations, in a fresh directory that
    # must hold nothing new afterwards
    import resource, signal
    big = ".orig x3000\nhalt\n.blkw #1000\n.end\n"
    def limited():
        signal.signal(signal.SIGXFSZ, signal.SIG_IGN)
        resource.setrlimit(resource.RLIMIT_FSIZE, (1024, 1024))
    # what the MODEL (CliWrite.outcome_of, theorems C08_kinds / C08_truncated_iff) says for each kind of destination and fault
    KIND = {"absent": 0, "existing": 1, "existing-longer": 1, "link-to-existing": 2, "long-name-absent": 0, "long-name-existing": 1, "dangling-link": 3}
    def model_outcome(dk, stop):
        r = ctx.run_model(["WRITE %x 0 0 %x %x 0 0" % (KIND[dk], 1 if stop else 0, stop or 0)], tag="c08w")[0][0]
        return [int(x, 16) for x in r.split()]
    longname = "n" * 245 + ".lc3"          # the destination's own name is legal (<= 255 bytes); a name derived from it by adding to it is not
    for dk in ("absent", "existing", "existing-longer", "link-to-existing", "long-name-absent", "long-name-existing"):
        sub = os.path.join(d, "fsize-" + dk); os.makedirs(sub, exist_ok=True)
        open(os.path.join(sub, "p.asm"), "w").write(big)
        name = longname if dk.startswith("long-name") else "out.lc3"
        dest = os.path.join(sub, name)
        real = dest
        before = None
        if dk == "link-to-existing":
            # the destination is a symbolic link to a regular file: the file it names is what must stay as it was (and the link a link)
            real = os.path.join(sub, "real.bin")
            before = OLD
            open(real, "wb").write(before)
            os.symlink("real.bin", dest)
        elif not dk.endswith("absent"):
            before = OLD if dk != "existing-longer" else OLD * 40
            open(dest, "wb").write(before)
        p = subprocess.run([exe, "compile", "p.asm", name], cwd=sub, stdout=subprocess.DEVNULL, stderr=subprocess.DEVNULL, stdin=subprocess.DEVNULL,
                           env=dict(os.environ, NO_COLOR="1", RUST_BACKTRACE="0"), preexec_fn=limited, timeout=20)
        after = open(real, "rb").read() if os.path.exists(real) else None
        left = sorted(os.listdir(sub))
        ev += 1
        sigs.add(("fsize-limit", dk, p.returncode == 0))
        want_left = sorted(["p.asm"] + ([] if dk.endswith("absent") else [name]) + (["real.bin"] if dk == "link-to-existing" else []))
        mo = model_outcome(dk, 1024)
        if mo[0] != 3:
            raise RuntimeError("C08 fault stage: the model's outcome for %s under a cut-off write is %r, WTempFail (3) expected by design" % (dk, mo))
        good = p.returncode != 0 and after == before and left == want_left and (dk != "link-to-existing" or os.path.islink(dest))
        if not good:
            nv += 1
            violations.append({"kind": "not-all-or-nothing", "class": "ok (2,004-byte image)", "destination": dk, "fault": "file-size limit of 1,024 bytes: the destination can be created but not completely written",
                               "source": big, "exit": p.returncode, "destination_before": before.hex()[:80] if before else None,
                               "destination_after": (after.hex()[:80] + "... (%d bytes)" % len(after)) if after is not None else None,
                               "directory_after": [x if len(x) < 60 else x[:20] + "... (%d characters)" % len(x) for x in left]})
    # and without any fault: a link and a long name are destinations like any other (the complete image, status 0, the link still a link)
    for dk in ("link-to-existing", "long-name-absent", "long-name-existing", "dangling-link"):
        sub = os.path.join(d, "nofault-" + dk); os.makedirs(sub, exist_ok=True)
        open(os.path.join(sub, "p.asm"), "w").write("add r0 r0 #1\nhalt\n")
        name = longname if dk.startswith("long-name") else "out.lc3"
        dest = os.path.join(sub, name)
        if dk == "link-to-existing":
            open(os.path.join(sub, "real.bin"), "wb").write(OLD); os.symlink("real.bin", dest)
        elif dk == "dangling-link":
            os.symlink("real.bin", dest)
        elif dk == "long-name-existing":
            open(dest, "wb").write(OLD * 3)
        p = subprocess.run([exe, "compile", "p.asm", name], cwd=sub, stdout=subprocess.DEVNULL, stderr=subprocess.PIPE, stdin=subprocess.DEVNULL,
                           env=dict(os.environ, NO_COLOR="1", RUST_BACKTRACE="0"), timeout=20)
        after = open(dest, "rb").read() if os.path.exists(dest) else None
        left = sorted(os.listdir(sub))
        ev += 1
        sigs.add(("no-fault", dk, p.returncode == 0))
        want_left = sorted(["p.asm", name] + (["real.bin"] if "link" in dk else []))
        mo = model_outcome(dk, None)
        if mo[0] != 0:
            raise RuntimeError("C08 no-fault stage: the model's outcome for %s is %r, WOk (0) expected" % (dk, mo))
        good = p.returncode == 0 and after == bytes.fromhex("300010 21f025".replace(" ", "")) and left == want_left and ("link" not in dk or os.path.islink(dest))
        if not good:
            nv += 1
            violations.append({"kind": "complete-file-expected", "destination": dk, "source": "add r0 r0 #1\nhalt\n", "exit": p.returncode,
                               "stderr": p.stderr.decode("utf-8", "replace")[-300:], "destination_after": after.hex() if after is not None else None,
                               "directory_after": [x if len(x) < 60 else x[:20] + "... (%d characters)" % len(x) for x in left]})
    # a symbolic link with a RELATIVE target, lying in another directory than the working directory (out/latest.lc3 -> build-1.lc3,
    # run from the parent of out/): the file it names - out/build-1.lc3 - is what is written; with and without the fault
    for fault in (False, True):
        for exists in (True, False):
            sub = os.path.join(d, "rellink-%d-%d" % (fault, exists)); os.makedirs(os.path.join(sub, "out"), exist_ok=True)
            open(os.path.join(sub, "p.asm"), "w").write(big if fault else "add r0 r0 #1\nhalt\n")
            target = os.path.join(sub, "out", "build-1.lc3")
            if exists:
                open(target, "wb").write(OLD)
            os.symlink("build-1.lc3", os.path.join(sub, "out", "latest.lc3"))
            p = subprocess.run([exe, "compile", "p.asm", os.path.join("out", "latest.lc3")], cwd=sub, stdout=subprocess.DEVNULL, stderr=subprocess.PIPE, stdin=subprocess.DEVNULL,
                               env=dict(os.environ, NO_COLOR="1", RUST_BACKTRACE="0"), preexec_fn=(limited if fault else None), timeout=20)
            after = open(target, "rb").read() if os.path.exists(target) else None
            top, inner = sorted(os.listdir(sub)), sorted(os.listdir(os.path.join(sub, "out")))
            ev += 1
            sigs.add(("relative-link", fault, exists, p.returncode == 0))
            if fault:
                good = p.returncode != 0 and after == (OLD if exists else None) and top == ["out", "p.asm"] and inner == (["build-1.lc3", "latest.lc3"] if exists else ["latest.lc3"])
            else:
                good = p.returncode == 0 and after == bytes.fromhex("30001021f025") and top == ["out", "p.asm"] and inner == ["build-1.lc3", "latest.lc3"]
            if not good:
                nv += 1
                violations.append({"kind": "relative-link-in-another-directory", "command_line": ["lace", "compile", "p.asm", "out/latest.lc3"], "link": "out/latest.lc3 -> build-1.lc3",
                                   "target_existed": exists, "write_fault": fault, "exit": p.returncode, "stderr": p.stderr.decode("utf-8", "replace")[-200:],
                                   "out/build-1.lc3_after": (after.hex()[:60] + " (%d bytes)" % len(after)) if after is not None else None,
                                   "working_directory_after": top, "out_after": inner})
    ctx.cleanup()
    return {
        "evaluations": ev, "distinct_nontrivial": len(sigs),
        "rule": "fault enumeration at the CLI: an out-of-range label reference injected at EVERY statement position 0..n of programs "
                "with n up to 40 (several PC-relative instructions), plus parse/lex/label errors and valid programs, x destination "
                "absent / pre-existing with unrelated contents, empty, a proper prefix of the new object file, the new object file followed by stale words / a link to /dev/full / missing directory / a directory in place of the file / a dangling link / a file name that is not valid UTF-8 (absent, pre-existing); sources without any statement (empty, comments, `.orig` alone, `.end` first); the reader of compile's standard output going away after the first progress line; a working directory removed under the process (absolute paths); a file-size limit below the image's size (the destination can be created but not completely written) with the destination absent, existing, a symbolic link to a regular file, a 249-byte file name; links and long names without a fault; the scratch directory must hold nothing new; "
                "observed: exit status and the bytes at the destination before and after; distinct = distinct (class, destination, exit==0)",
        "exhaustive": True, "exhaustive_over": "failing statement position 0..n for each listed n",
        "histogram": hist, "samples": samples, "mismatches": nv,
    }


def replay(ctx, payload):
    log(str({k: payload.get(k) for k in ("kind", "class", "destination", "exit", "destination_before", "destination_after")}))
    return 1
