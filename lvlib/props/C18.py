"""C18 — the stack extension is gated by its feature flag, and only it."""
import dbgcommon, dbggen, random
import asmgen, asmcommon
from lc3 import *
from props import C03

# parts of an assembly result the property does not speak about: a difference in these alone breaks the
# correspondence but is not an input on which the property fails (reported with no-failing-input-found)
AUX = ('bps', 'spans')
AUX_DBG = ('cmds differs',)

ASSUMPTIONS = ["the feature flag is set per harness thread through features::verif_force in the in-process runs; the real binary is run with and without -f stack for the command line's side (11 spellings) and for sessions under `lace debug`"]

MNEMS = ["push", "pop", "call", "rets"]


def case_variants(rnd, w):
    return [w, w.upper(), w.capitalize(), "".join(c.upper() if rnd.random() < 0.5 else c for c in w)]


def gen_asm(tier, seed):
    rnd = random.Random(seed)
    cases, tags = [], []

    def add(tag, text):
        for feat in (0, 1):
            cases.append(asmgen.asm_case(feat, [(1, text)])); tags.append(tag + ("-on" if feat else "-off"))

    for m in MNEMS:
        for v in case_variants(rnd, m):
            operand = {"push": " r1", "pop": " r2", "call": " sub", "rets": ""}[m]
            add("use", f"{v}{operand}\nsub halt\n")
            add("label-pos", f"{v} halt\n")                  # the mnemonic where a label may stand
            add("label-ref", f"br {v}\n{v} halt\n")
            add("operand-pos", f"add r0 r0 {v}\n")
            add("near-miss", f"{v}x halt\nbr {v}x\n")          # not the mnemonic: an ordinary label
            add("near-miss", f"x{v} halt\n")
            add("in-comment", f"halt ; {v} r1\n")
            add("in-string", f".stringz \"{v}\"\n")
    # DATA words whose top four bits happen to be 1101: the extension is about mnemonics (assembler) and about
    # FETCHED instruction words (VM); a data word is neither, with the flag or without it
    for v in ("xD000", "xD123", "xDFFF", "#-10000", "#-8193", "#-12288", "#53248", "#57343", "0xd800", "b1101000000000001"):
        add("data-word", f"lea r0 d\nldr r1 r0 #0\nhalt\nd .fill {v}\n")
        add("data-word", f".fill {v}\n")
        add("data-word", f"d .fill {v}\n.fill {v}\nhalt\n.fill {v}\n")
    add("data-word", "halt\ns .stringz \"\ud55c\ud000\ud7a3\"\n")
    add("data-word", ".orig xD000\nlea r0 here\nhere halt\n")
    add("data-word", ".orig xD123\n.fill xD123\n")
    n = 300 if tier == "quick" else 20000
    for i in range(n):
        stack = i % 2 == 0
        items = asmgen.gen_program(rnd, stack=stack)
        add("random-stack" if stack else "random-plain", asmgen.render(rnd, items, style="random"))
    return cases, tags


def gen_vm(tier, seed):
    rnd = random.Random(seed + 1)
    cases, tags = [], []
    progs = [
        ("d-reached", [ADDI(1, 1, 3), PUSH(1), POP(2), PUTN, HALT]),
        ("d-reached", [CALL(1), HALT, RETS]),
        ("d-reached", [RETS]),
        ("d-not-reached", [BR(7, 1), PUSH(1), ADDI(0, 0, 5), PUTN, HALT]),
        ("d-not-reached", [LD(0, 2), PUTN, HALT, PUSH(3), CALL(5)]),       # 0xD words only as data
        ("d-as-data-loaded", [LD(0, 1), HALT, 0xD123]),
    ]
    for tag, body in progs:
        for feat in (0, 1):
            cases.append(C03.case_line(feat, 500, [0x3000] + body, [])); tags.append("vm-" + tag + ("-on" if feat else "-off"))
    n = 200 if tier == "quick" else 20000
    for i in range(n):
        body = C03.prog_random_weighted(rnd)
        if rnd.random() < 0.5:
            body = [w for w in body if (w >> 12) != 13] or [HALT]
        inp = C03.gen_input(rnd)
        for feat in (0, 1):
            cases.append(C03.case_line(feat, 300, [0x3000] + body, inp))
            tags.append("vm-random" + ("-on" if feat else "-off"))
    return cases, tags


DBG_SRC = [
    "and r1 r1 #0\nadd r1 r1 #5\npush r1\npop r2\ncall sub\nadd r0 r2 #0\nputn\nhalt\nsub add r2 r2 #1\nrets\n",
    "add r0 r0 #1\n.fill xD040\nputn\nhalt\n",                       # a raw 0xD word (PUSH r1): assembles without the flag too
    "lea r0 m\npush r0\npop r1\nadd r0 r1 #0\nputs\nhalt\nm .stringz \"ok\"\n",
]


def gen_dbg(tier, seed):
    """The extension under the DEBUGGER: with the flag the four mnemonics execute in every mode the debugger has (free
    running, single steps, after `reset`, through `eval`), without it a reached 0xD word stops the program the same way."""
    rnd = random.Random(seed + 2)
    scripts = [
        [("continue",)],
        [("reset",), ("continue",)],
        [("step",), ("step",), ("step",), ("reset",), ("continue",)],
        [("stepinto", 4), ("registers",), ("reset",), ("stepinto", 4), ("registers",), ("continue",)],
        [("reset",), ("eval", "push r1"), ("registers",), ("eval", "pop r3"), ("registers",), ("continue",)],
        [("continue",), ("reset",), ("continue",)],
        [("step",), ("reset",), ("step",), ("reset",), ("step",), ("step",), ("step",), ("registers",), ("exit",)],
        [("eval", "push r1"), ("reset",), ("eval", "push r1"), ("registers",), ("exit",)],
        [("stepinto", 3), ("stepout",), ("registers",), ("reset",), ("stepinto", 5), ("stepout",), ("registers",), ("continue",)],
    ]
    specs = []
    for src in DBG_SRC:
        for feat in (0, 1):
            for sc in scripts:
                specs.append(("dbg-flag-on" if feat else "dbg-flag-off", feat, src, [], sc))
    for _ in range(20 if tier == "quick" else 2000):
        src = rnd.choice(DBG_SRC)
        sc = [rnd.choice([("step",), ("stepinto", rnd.randrange(1, 6)), ("reset",), ("reset",), ("registers",), ("eval", "push r1"),
                          ("eval", "pop r2"), ("eval", "rets"), ("stepout",), ("continue",)]) for _ in range(rnd.randrange(2, 9))]
        specs.append(("dbg-random", rnd.choice([0, 1, 1]), src, [], sc + [rnd.choice([("continue",), ("exit",)])]))
    return rnd, specs


def correspondence(ctx, violations, known_hits):
    ca, ta = gen_asm(ctx.tier, ctx.seed)
    cv, tv = gen_vm(ctx.tier, ctx.seed)
    profiles = ("debug",) if ctx.tier == "quick" else ("debug", "release")
    r = asmcommon.run_asm_cases(ctx, ca, ta, violations, profiles, aux=AUX,
                                prop_note="model: flag-off result is the flag-on result or the stack-extension diagnostic (C18_asm_flag)")
    # VM half: C03-style runs under both flag values
    ev, mism, sigs, hist = 0, 0, set(), {}
    samples = list(r["samples"])[:5]
    for prof in profiles:
        ri, rm, crashes = ctx.run_both(cv, profile=prof, tag="c18vm")
        for c in crashes:
            violations.append({"kind": "implementation-crashed", "profile": prof, "detail": c["tail"]})
        for ci, (a, b) in enumerate(zip(ri, rm)):
            if a is None:
                continue
            ev += 1
            la, lb = (a[0] if a else ""), (b[0] if b else "")
            k = lb.split()[:2]
            sig = (tv[ci], tuple(k))
            hist[str(sig)] = hist.get(str(sig), 0) + 1
            if sig not in sigs:
                sigs.add(sig)
                if len(samples) < 9:
                    samples.append({"tag": tv[ci], "case": cv[ci], "model": lb[:160]})
            if la != lb:
                mism += 1
                if mism <= 5:
                    violations.append({"kind": "model-vs-implementation", "profile": prof, "tag": tv[ci], "case": cv[ci],
                                       "implementation": la, "model": lb,
                                       "replay_kind": "C03"})
    cli = cli_flag(ctx, violations)
    ev += cli["runs"]
    fl = flag_lists(ctx, violations)
    ev += fl["strings"]
    rnd, specs = gen_dbg(ctx.tier, ctx.seed)
    dcases, dtags = dbgcommon.make_cases(rnd, specs)
    rd = dbgcommon.run_dbg_cases(ctx, dcases, dtags, violations, ("debug",), aux=AUX_DBG,
                                 note="model: with the flag the 0xD words execute under the debugger in every mode, also after reset and through eval (C18_vm_off / C02_exec under Dbg.v)")
    real = dbgcommon.cli_cross(ctx, specs, violations, limit=(60 if ctx.tier == "quick" else 600), with_eval=True)
    ev += rd["evaluations"] + real.get("sessions", 0)
    ctx.cleanup()
    return {
        "flag_on_the_command_line": cli, "flag_list_parser": fl,
        "under_the_debugger": {"in_process": {"evaluations": rd["evaluations"], "mismatches": rd["mismatches"], "stop_kinds": rd["hist"]},
                               "real_binary_without_hooks": real},
        "evaluations": r["evaluations"] + ev, "distinct_nontrivial": len(r["sigs"]) + len(sigs),
        "rule": "assembler: each of push/pop/call/rets in four letter cases x {used, in label position, referenced as a label, as an "
                "operand, near-miss identifiers, inside comment/string} x flag off/on, plus random programs with/without the "
                "extension under both flags; VM: images with raw 0xD words reached / not reached / only as data, and random images "
                "with and without 0xD words, under both flags; distinct = distinct (class+flag, outcome)",
        "asm_outcome_histogram": r["hist"], "vm_outcome_histogram": hist, "samples": samples,
        "mismatches": r["mismatches"] + mism, "profiles": list(profiles),
    }


def flag_lists(ctx, violations):
    """`Features::from_str` (the value parser behind -f / --features) against its model Feat.v: EVERY comma-joined list of
    up to 4 (thorough: 5) elements over {empty, stack, Stack, STACK, stac, stackk, ' stack', 'stack ', heap, 's,tack'-like
    fragments} plus random strings over the letters of `stack`, comma and blank."""
    import itertools
    elems = ["", "stack", "Stack", "STACK", "stac", "stackk", " stack", "stack ", "heap", "s", "\u017ftack"]
    texts = set()
    for n in range(0, 5 if ctx.tier == "quick" else 6):
        for combo in itertools.product(elems, repeat=n):
            if ctx.tier == "quick" and n == 4 and sum(1 for e in combo if e not in ("", "stack")) > 1:
                continue
            texts.add(",".join(combo))
    rnd = random.Random(ctx.seed + 5)
    for _ in range(500 if ctx.tier == "quick" else 20000):
        texts.add("".join(rnd.choice("stack,, ST") for _ in range(rnd.randrange(0, 12))))
    texts = sorted(texts)
    cases = ["FEAT " + " ".join(f"{v:x}" for v in [len(t)] + [ord(c) for c in t]) for t in texts]
    ri, rm, crashes = ctx.run_both(cases, profile="debug", tag="feat")
    for c in crashes:
        violations.append({"kind": "implementation-crashed", "profile": "debug", "detail": c["tail"]})
    n = bad = 0
    hist = {}
    for t, case, a, b in zip(texts, cases, ri, rm):
        if a is None:
            continue
        n += 1
        hist[b[0]] = hist.get(b[0], 0) + 1
        if a != b:
            bad += 1
            if bad <= 4:
                violations.append({"kind": "flag-list", "case": case, "text": t, "implementation": a, "model": b,
                                   "meaning": "0 accepted/off, 1 accepted/on, 2 refused"})
    return {"strings": n, "mismatches": bad, "verdicts": hist}


def model_positions(ctx, combos):
    """combos: (flags before the sub-command, flags after it) as argv fragments -> what Feat.command_line says for each:
    True (on), False (off), None (refused).  The value of an argv fragment: ['-f', V] / ['--features', V] / ['--features=V'] / []."""
    def val(fr):
        if not fr:
            return None
        if len(fr) == 1:
            return fr[0].split("=", 1)[1]
        return fr[1]
    cases = []
    for pre, post in combos:
        a, b = val(pre), val(post)
        nums = [0 if a is None else 1, len(a or "")] + [ord(c) for c in (a or "")] + [0 if b is None else 1, len(b or "")] + [ord(c) for c in (b or "")]
        cases.append("FEAT2 " + " ".join(f"{x:x}" for x in nums))
    res = ctx.run_model(cases, tag="c18pos")
    return [{0: False, 1: True, 2: None}[int(r[0].split()[0], 16)] for r in res]


def cli_flag(ctx, violations):
    """The flag as users give it (the real binary, hooks off): the feature is on exactly when `stack` is among the
    comma-separated elements of -f / --features, however the list is written; then the extension source checks, compiles to
    the same bytes and runs, and otherwise it is rejected naming the feature and a reached 0xD word stops with status 1."""
    import os, clicommon
    exe = ctx.cli()
    d = clicommon.fresh_dir(ctx, "cliflag")
    src = "lea r0 m\npush r0\npop r1\nadd r0 r1 #0\nputs\nhalt\nm .stringz \"ok\"\n"
    open(os.path.join(d, "s.asm"), "w").write(src)
    open(os.path.join(d, "raw.asm"), "w").write("add r0 r0 #1\n.fill xD040\nhalt\n")          # a 0xD word reached at run time (PUSH r1)
    spellings = [(["-f", "stack"], True), (["--features", "stack"], True), (["--features=stack"], True), (["-f", "stack,"], True),
                 (["-f", ",stack"], True), (["-f", ",,stack"], True), (["-f", "stack,,"], True), (["-f", ",stack,"], True),
                 (["-f", ""], False), (["-f", ","], False), ([], False),
                 # refused by the value parser (Feat.v: None): clap ends the process with status 2 before anything is read
                 (["-f", "stack,stack"], None), (["-f", "Stack"], None), (["-f", " stack"], None), (["-f", "stack,heap"], None),
                 (["--features", "heap"], None), (["-f", "stack,,stack"], None)]
    # the same two programs as pre-assembled IMAGES (.lc3 / .obj): the gate must behave on the image as on the source,
    # through `lace run FILE` and the bare `lace FILE` form
    import shutil
    clicommon.run_cli(exe, ["compile", "raw.asm", "raw.lc3"], d)
    clicommon.run_cli(exe, ["compile", "s.asm", "simg.lc3", "-f", "stack"], d)
    for nm in ("raw", "simg"):
        if os.path.exists(os.path.join(d, nm + ".lc3")):
            shutil.copy(os.path.join(d, nm + ".lc3"), os.path.join(d, nm + ".obj"))
    ref = None
    runs = bad = 0
    for flags, on in spellings:
        img = []
        for form in (["run"], []):
            for f in ("raw.lc3", "raw.obj", "simg.lc3", "simg.obj"):
                rc_i, so_i, se_i = clicommon.run_cli(exe, form + [f, "--minimal"] + flags, d)
                runs += 1
                want = 2 if on is None else (0 if on else 1)
                okk = rc_i == want and (not (on and f.startswith("simg")) or "ok" in so_i.decode("utf-8", "replace"))
                if not okk:
                    img.append({"form": " ".join(form + [f]), "exit": rc_i, "expected_exit": want, "stderr": se_i.decode("utf-8", "replace")[-200:]})
        if img:
            bad += 1
            if bad <= 4:
                violations.append({"kind": "flag-on-image", "flags": flags, "feature_expected_on": on, "runs": img[:4]})
        out = os.path.join(d, "o%d.lc3" % runs)
        if os.path.exists(out):
            os.remove(out)
        rc_check, so_c, se_c = clicommon.run_cli(exe, ["check", "s.asm"] + flags, d)
        rc_comp, _, _ = clicommon.run_cli(exe, ["compile", "s.asm", out] + flags, d)
        rc_run, so_r, se_r = clicommon.run_cli(exe, ["run", "s.asm", "--minimal"] + flags, d)
        rc_raw, so_w, se_w = clicommon.run_cli(exe, ["run", "raw.asm", "--minimal"] + flags, d)
        data = open(out, "rb").read() if os.path.exists(out) else None
        runs += 4
        if on and ref is None and data is not None:
            ref = data
        text = (so_c + se_c).decode("utf-8", "replace").lower()
        if on is None:
            good = rc_check == 2 and rc_comp == 2 and data is None and rc_run == 2 and rc_raw == 2
        elif on:
            good = rc_check == 0 and rc_comp == 0 and data is not None and data == ref and rc_run == 0 and "ok" in so_r.decode("utf-8", "replace") and rc_raw == 0
        else:
            good = rc_check != 0 and "stack" in text and rc_comp != 0 and data is None and rc_run != 0 and rc_raw == 1
        if not good:
            bad += 1
            if bad <= 4:
                violations.append({"kind": "flag-spelling", "flags": flags, "feature_expected_on": on, "check_exit": rc_check,
                                   "compile_exit": rc_comp, "object_bytes": data.hex() if data else None,
                                   "reference_bytes": ref.hex() if ref else None, "run_exit": rc_run, "raw_0xD_run_exit": rc_raw,
                                   "check_output": text[-300:]})
    # the flag written BEFORE the sub-command (`lace -f stack run FILE`): clap accepts it there, so it must take effect there
    # (or the command line be refused) - the extension on exactly as when the flag follows the sub-command
    before = [(["-f", "stack"], True), (["--features", "stack"], True), (["--features=stack"], True), (["-f", ""], False), (["-f", "heap"], None)]
    mo = model_positions(ctx, [(pre, []) for pre, _ in before])
    if mo != [on for _, on in before]:
        raise RuntimeError("C18: the model (Feat.command_line) disagrees with the designed expectations for the flag before the sub-command: %r" % (mo,))
    for pre, on in before:
        obs = {}
        for sub, tail in (("check", ["s.asm"]), ("compile", ["s.asm", "pre.lc3"]), ("run", ["s.asm", "--minimal"]), ("run", ["simg.lc3", "--minimal"]),
                          ("debug", ["s.asm", "--minimal", "--command", "continue"])):
            if os.path.exists(os.path.join(d, "pre.lc3")):
                os.remove(os.path.join(d, "pre.lc3"))
            rc_p, so_p, se_p = clicommon.run_cli(exe, pre + [sub] + tail, d)
            runs += 1
            obs[sub + " " + tail[0]] = rc_p
            want_ok = bool(on)
            good = (rc_p == 2) if on is None else ((rc_p == 0) == want_ok)
            if not good:
                bad += 1
                if bad <= 6:
                    violations.append({"kind": "flag-before-subcommand", "command_line": ["lace"] + pre + [sub] + tail, "exit": rc_p,
                                       "feature_expected_on": on, "stderr": se_p.decode("utf-8", "replace")[-300:],
                                       "note": "the same flag after the sub-command switches the extension on"})
    # the flag in BOTH positions of one command line (before and after the sub-command): the extension is on when either says so
    both = [(["-f", "stack"], ["-f", "stack"]), (["-f", "stack"], ["-f", ""]), (["-f", ""], ["-f", "stack"]),
            (["--features=stack"], ["--features", "stack"]), (["-f", ""], ["-f", ""]), (["-f", ","], ["-f", "stack,"]),
            (["-f", "stack"], ["-f", "heap"]), (["-f", "Stack"], ["-f", "stack"]), (["-f", "stack,stack"], [])]
    both_on = model_positions(ctx, both)                 # the expectation comes from the model: Feat.command_line (C18_flag_positions)
    for (pre, post), on in zip(both, both_on):
        for sub, tail in (("check", ["s.asm"]), ("compile", ["s.asm", "both.lc3"]), ("run", ["s.asm", "--minimal"]), ("run", ["simg.lc3", "--minimal"]),
                          ("run", ["raw.lc3", "--minimal"]), ("debug", ["s.asm", "--minimal", "--command", "continue"])):
            if os.path.exists(os.path.join(d, "both.lc3")):
                os.remove(os.path.join(d, "both.lc3"))
            rc_p, so_p, se_p = clicommon.run_cli(exe, pre + [sub] + tail + post, d)
            runs += 1
            want = 2 if on is None else (0 if on else 1)
            if rc_p != want:
                bad += 1
                if bad <= 6:
                    violations.append({"kind": "flag-in-both-positions", "command_line": ["lace"] + pre + [sub] + tail + post, "exit": rc_p, "expected_exit": want,
                                       "feature_expected_on": on, "stderr": se_p.decode("utf-8", "replace")[-300:]})
    # the 0xD stop with a standard OUTPUT that rejects writes (a full device, a reader that has gone): still status 1 and the
    # note naming the flag on stderr
    import subprocess
    # (programs that print nothing themselves: what a failing PUTS / OUT does is not this property's business)
    for f in ("raw.asm", "raw.lc3"):
        for mini in (["--minimal"], []):
            for sink in ("full", "closed-pipe"):
                if sink == "full" and not os.path.exists("/dev/full"):
                    continue
                env = dict(os.environ, NO_COLOR="1", RUST_BACKTRACE="0")
                if sink == "full":
                    with open("/dev/full", "wb") as out_f:
                        pr = subprocess.run([exe, "run", f] + mini, cwd=d, stdin=subprocess.DEVNULL, stdout=out_f, stderr=subprocess.PIPE, env=env, timeout=20)
                else:
                    rfd, wfd = os.pipe(); os.close(rfd)
                    try:
                        pr = subprocess.run([exe, "run", f] + mini, cwd=d, stdin=subprocess.DEVNULL, stdout=wfd, stderr=subprocess.PIPE, env=env, timeout=20)
                    finally:
                        os.close(wfd)
                runs += 1
                note = pr.stderr.decode("utf-8", "replace")
                if pr.returncode != 1 or "-f stack" not in note:
                    bad += 1
                    if bad <= 6:
                        violations.append({"kind": "reserved-stop-with-unwritable-stdout", "command_line": ["lace", "run", f] + mini, "stdout": sink,
                                           "source": open(os.path.join(d, f.replace(".lc3", ".asm"))).read(), "exit": pr.returncode, "expected_exit": 1,
                                           "stderr": note[-300:]})
    return {"runs": runs, "spellings": len(spellings), "mismatches": bad,
            "rule": "real binary: check / compile / run of an extension source, run of a source reaching a 0xD data word, and run (both `lace run FILE` and bare `lace FILE`) of the pre-assembled .lc3 / .obj IMAGES of both, for 17 ways of writing (or not writing, or miswriting) the feature list; the flag before the sub-command, and in both positions at once; the 0xD stop (status 1, note naming the flag) with a standard output that rejects writes (/dev/full, closed pipe)"}


def replay(ctx, payload):
    if payload.get("kind") == "flag-list":
        from core import log
        ri, rm, _ = ctx.run_both([payload["case"]], profile="debug", tag="replay")
        log(f"feature list {payload.get('text')!r}: implementation {ri[0]}, model {rm[0]} (0 accepted/off, 1 accepted/on, 2 refused)")
        return 0 if ri[0] == rm[0] else 1
    if payload.get("kind") in ("real-binary-vs-model", "model-vs-implementation") and str(payload.get("case", "")).startswith("DBG"):
        return dbgcommon.replay_dbg(ctx, payload)
    if payload.get("replay_kind") == "C03":
        return C03.replay(ctx, payload)
    return asmcommon.replay_asm(ctx, payload)
