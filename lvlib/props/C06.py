"""C06 — object files round-trip and the loader rejects what it cannot load (CLI level)."""
import os, random
import asmgen, clicommon
from core import log
from lc3 import *

ASSUMPTIONS = [
    "file-system behaviour (create/write/read) is the operating system's; only lace's use of it is checked",
    "programs used for run-equivalence terminate by construction; images that exceed the model's step budget are skipped",
]


def obj_case(feat, text):
    cps = [ord(c) for c in text]
    return "OBJ " + " ".join(f"{x:x}" for x in [feat, len(cps)] + cps)


def src_case(feat, fuel, text, inp):
    cps = [ord(c) for c in text]
    return "SRC " + " ".join(f"{x:x}" for x in [feat, fuel, len(cps)] + cps + [len(inp)] + list(inp))


def lc3_case(feat, fuel, data, inp):
    return "LC3 " + " ".join(f"{x:x}" for x in [feat, fuel, len(data)] + list(data) + [len(inp)] + list(inp))


def loader_files(rnd, tier):
    files = []
    for n in range(0, 10):
        files.append(bytes(rnd.randrange(256) for _ in range(n)))
        files.append(bytes([0x30, 0x00] + [0xF0, 0x25] * 5)[:n])
    def img(origin, words):
        b = bytearray(origin.to_bytes(2, "big"))
        for w in words:
            b += w.to_bytes(2, "big")
        return bytes(b)
    for origin, n in [(0xFFFF, 0), (0xFFFF, 1), (0xFFFE, 0), (0xFFFE, 1), (0xFFFE, 2), (0xFFF0, 14), (0xFFF0, 15), (0xFFF0, 16),
                      (0xFDFF, 0), (0xFDFF, 1), (0xFE00, 0), (0, 0), (0, 3), (0x3000, 0), (0x3000, 100)]:
        files.append(img(origin, [HALT] * n))
    # files around (and far beyond) the size of the whole address space
    for origin, nbytes in [(0, 131072), (0, 131070), (0, 131074), (0, 131073), (0, 131071), (0, 196608), (0, 262146),
                           (1, 131072), (1, 131070), (0x3000, 131074), (0x3000, 131073), (0xFFFF, 131072)]:
        b = bytearray(origin.to_bytes(2, "big")) + bytearray([0xF0, 0x25]) + bytearray(max(0, nbytes - 4))
        files.append(bytes(b[:nbytes]))
    for _ in range(150 if tier == "quick" else 4000):
        origin = rnd.choice([0x3000, 0x3000, 0, 0x8000, 0xFDF0, rnd.randrange(65536)])
        words = [rnd.choice([ADDI(0, 0, 1), PUTN, OUT, HALT, rnd.randrange(65536), LD(0, 1), ADD(1, 1, 1), TRAP(0x80), 0x8000])
                 for _ in range(rnd.randrange(0, 8))] + [HALT]
        b = img(origin, words)
        if rnd.random() < 0.15:
            b = b[:-1]
        files.append(b)
    return files


def correspondence(ctx, violations, known_hits):
    rnd = random.Random(ctx.seed)
    exe = ctx.cli()
    n = 300 if ctx.tier == "quick" else 5000
    d = clicommon.fresh_dir(ctx, "cli")
    progs = []
    for i in range(n):
        feat = rnd.randrange(2)
        if i % 3 == 0:
            text = clicommon.gen_terminating_program(rnd)
        else:
            items = asmgen.gen_program(rnd, stack=bool(feat), nstmts=rnd.choice([1, 3, 6]))
            text = "halt\n" + asmgen.render(rnd, items, style=rnd.choice(["plain", "random"]))   # halts at once, assembles the rest
        progs.append((feat, text, bytes(rnd.randrange(256) for _ in range(rnd.choice([0, 0, 2])))))
    # programs around HALF and around the WHOLE of the address space (x7FFF, x8000, x8001 ... words): the object file is
    # the origin and then every word, in order, however many there are
    for pad, org in ((0x7FF8, "x3000"), (0x7FF9, "x3000"), (0x7FFA, "x3000"), (0x7FFB, "x0000"), (0xC000, "x0000"), (0xFFF0, "x0000"), (0xFFF8, "x0000"), (0xFFF9, "x0000")):
        progs.append((0, f".orig {org}\nlea r0 msg\nputs\nhalt\nmsg .stringz \"ok\"\npad .blkw x{pad:X}\n.fill xBEEF\n.fill xCAFE\n", b""))
    # programs that EXECUTE the stack extension (and end): the object file must run like its source under the same flag
    for feat in (1, 0):
        progs.append((feat, "lea r0 m\npush r0\npop r1\nadd r0 r1 #0\nputs\ncall f\nhalt\nf ld r0 c\nout\nrets\nc .fill x21\nm .stringz \"ok\"\n", b""))
        progs.append((feat, ".orig x4000\nand r2 r2 #0\nadd r2 r2 #3\nl push r2\nadd r2 r2 #-1\nbrp l\npop r0\nputn\npop r0\nputn\npop r0\nputn\nhalt\n", b""))
        progs.append((feat, "add r0 r0 #1\n.fill xD040\nputn\nhalt\n", b""))      # a raw 0xD word (PUSH r1) reached at run time
    # console input that runs out: GETC / IN at the end of the real stdin (the in-process runs inject input below the reader)
    for text in ("getc\nout\ngetc\nout\nhalt\n", "in\nhalt\n", "getc\nin\ngetc\nhalt\n", "lea r0 m\nputs\ngetc\nout\nhalt\nm .stringz \"?\"\n"):
        for inp in (b"", b"A", b"AB", b"\xe9"):
            progs.append((0, text, inp))
    fuel = 20000
    model_obj = ctx.run_model([obj_case(f, t) for f, t, _ in progs], tag="obj")
    model_src = ctx.run_model([src_case(f, fuel, t, inp) for f, t, inp in progs], tag="src")

    def stale(i):
        """Contents of the destination before `compile`: absent, a LONGER valid object file (putn; putn; halt; ...), a shorter one."""
        k = i % 4
        if k == 1:
            return bytes.fromhex("3000" + "f026" * 3 + "f025" + "1021" * 40)
        if k == 2:
            return bytes.fromhex("3000")
        return None

    def job(i):
        feat, text, inp = progs[i]
        def run():
            sub = os.path.join(d, str(i)); os.makedirs(sub, exist_ok=True)
            with open(os.path.join(sub, "p.asm"), "w", encoding="utf-8", newline="") as f:
                f.write(text)
            fl = ["-f", "stack"] if feat else []
            pre = stale(i)
            if pre is not None:          # the destination already exists: a longer / shorter object file of an earlier build
                with open(os.path.join(sub, "out.lc3"), "wb") as f:
                    f.write(pre)
            rc, so, se = clicommon.run_cli(exe, ["compile", "p.asm", "out.lc3"] + fl, sub)
            data = open(os.path.join(sub, "out.lc3"), "rb").read() if os.path.exists(os.path.join(sub, "out.lc3")) else None
            r_src = clicommon.run_cli(exe, ["run", "p.asm", "--minimal"] + fl, sub, stdin=inp)
            r_obj = clicommon.run_cli(exe, ["run", "out.lc3", "--minimal"] + fl, sub, stdin=inp) if data is not None else None
            other = None
            if i % 4 == 0:
                # the other ways of saying the same thing: `lace FILE` without a sub-command, the object file under the
                # .obj extension, `compile` without a destination (writes <name>.lc3 into the current directory)
                r_bare = clicommon.run_cli(exe, fl + ["p.asm", "--minimal"], sub, stdin=inp)
                r_objx = None
                if data is not None:
                    with open(os.path.join(sub, "copy.obj"), "wb") as f:
                        f.write(data)
                    r_objx = clicommon.run_cli(exe, ["run", "copy.obj", "--minimal"] + fl, sub, stdin=inp)
                dd = os.path.join(sub, "dd"); os.makedirs(dd, exist_ok=True)
                rc_d, _, _ = clicommon.run_cli(exe, ["compile", os.path.join("..", "p.asm")] + fl, dd)
                made = sorted(os.listdir(dd))
                d_data = open(os.path.join(dd, "p.lc3"), "rb").read() if made == ["p.lc3"] else None
                other = (r_bare, r_objx, rc_d, made, d_data)
            return rc, data, r_src, r_obj, other
        return run

    results = clicommon.parallel([job(i) for i in range(len(progs))])
    ev, sigs, samples, nv = 0, set(), [], 0
    hist = {"compiled": 0, "rejected": 0, "run-equal": 0, "skipped-nonterminating": 0}
    for i, (rc, data, r_src, r_obj, other) in enumerate(results):
        feat, text, inp = progs[i]
        if other is not None:
            r_bare, r_objx, rc_d, made, d_data = other
            ev += 1
            why = None
            if (r_bare[0], clicommon.program_output(r_bare[1])) != (r_src[0], clicommon.program_output(r_src[1])):
                why = "`lace FILE` differs from `lace run FILE`"
            elif r_objx is not None and r_obj is not None and (r_objx[0], clicommon.program_output(r_objx[1])) != (r_obj[0], clicommon.program_output(r_obj[1])):
                why = "the object file runs differently under the .obj extension"
            elif rc_d != rc or (rc == 0 and (made != ["p.lc3"] or d_data != data)) or (rc != 0 and made):
                why = "`compile` without a destination: status or <name>.lc3 in the current directory differs from `compile FILE DEST`"
            if why:
                nv += 1
                if nv <= 8:
                    violations.append({"kind": "invocation-forms", "why": why, "source": text, "feature_stack": feat, "stdin": inp.hex(),
                                       "run": [r_src[0], clicommon.program_output(r_src[1])], "bare": [r_bare[0], clicommon.program_output(r_bare[1])],
                                       "compile_exit": rc, "compile_default_exit": rc_d, "files_in_cwd": made,
                                       "default_bytes": d_data.hex()[:200] if d_data else None})
        mo = [int(x, 16) for x in model_obj[i][0].split()]
        ev += 1
        exp_bytes = bytes(mo[2:2 + mo[1]]) if mo[0] == 0 else None
        # accepted: exactly the object bytes, whatever was there before; rejected: the destination as it was
        ok = (rc == mo[0]) and (data == (exp_bytes if mo[0] == 0 else stale(i)))
        hist["compiled" if mo[0] == 0 else "rejected"] += 1
        sig = ("obj", mo[0], min(mo[1], 8))
        if sig not in sigs:
            sigs.add(sig)
            if len(samples) < 6:
                samples.append({"source": text, "model_exit": mo[0], "model_bytes": exp_bytes.hex() if exp_bytes else None})
        if not ok:
            nv += 1
            if nv <= 5:
                violations.append({"kind": "compile-bytes", "source": text, "feature_stack": feat, "cli_exit": rc,
                                   "destination_before": stale(i).hex() if stale(i) is not None else None,
                                   "cli_bytes": data.hex() if data is not None else None, "model_exit": mo[0],
                                   "model_bytes": exp_bytes.hex() if exp_bytes is not None else None})
            continue
        # run equivalence: source vs object file vs model
        code, out, kind = clicommon.model_obs(model_src[i][0])
        if kind == 4 or kind == 3:
            hist["skipped-nonterminating"] += 1
            continue
        src_obs = (r_src[0], clicommon.program_output(r_src[1]))
        if mo[0] != 0:
            # rejected by compile (and by the model): `run` of the source must reject it too; what lies at the destination is
            # the untouched file of an earlier build, not an object of this source
            ev += 1
            if src_obs[0] != code:
                nv += 1
                if nv <= 8:
                    violations.append({"kind": "run-source-vs-object-vs-model", "source": text, "stdin": inp.hex(),
                                       "run_source": [src_obs[0], src_obs[1]], "run_object": None, "model": [code, out]})
            continue
        if data is not None:
            obj_obs = (r_obj[0], clicommon.program_output(r_obj[1]))
            ev += 1
            if src_obs != obj_obs or src_obs[0] != code or (out is not None and src_obs[1] != out):
                nv += 1
                if nv <= 8:
                    violations.append({"kind": "run-source-vs-object-vs-model", "source": text, "stdin": inp.hex(),
                                       "run_source": [src_obs[0], src_obs[1]], "run_object": [obj_obs[0], obj_obs[1]],
                                       "model": [code, out]})
            else:
                hist["run-equal"] += 1
                sigs.add(("run", kind, code, min(len(out or ""), 3)))
    # the object file delivered through a NAMED PIPE (reported size 0, readable once): it runs as the regular file does
    fsub = clicommon.fresh_dir(ctx, "fifo")
    for k, (text, inp) in enumerate((("lea r0 m\nputs\nhalt\nm .stringz \"pipe\"\n", b""), ("getc\nout\nhalt\n", b"Q"), (".orig x4000\nand r0 r0 #0\nadd r0 r0 #7\nputn\nhalt\n", b""))):
        open(os.path.join(fsub, "f%d.asm" % k), "w").write(text)
        rc_c, _, _ = clicommon.run_cli(exe, ["compile", "f%d.asm" % k, "f%d.lc3" % k], fsub)
        data_k = open(os.path.join(fsub, "f%d.lc3" % k), "rb").read() if rc_c == 0 else None
        if data_k is None:
            continue
        reg = clicommon.run_cli(exe, ["run", "f%d.lc3" % k, "--minimal"], fsub, stdin=inp)
        for bad in (data_k, data_k + b"\x00", b""):          # the image, an odd-length variant, nothing at all
            open(os.path.join(fsub, "r.lc3"), "wb").write(bad)
            want = clicommon.run_cli(exe, ["run", "r.lc3", "--minimal"], fsub, stdin=inp)
            got = clicommon.run_cli_fifo(exe, ["run", "p.lc3", "--minimal"], fsub, "p.lc3", bad, stdin=inp)
            ev += 1
            a = (want[0], clicommon.program_output(want[1])); b = (got[0], clicommon.program_output(got[1]))
            if a != b:
                nv += 1
                violations.append({"kind": "object-file-through-a-named-pipe", "source": text, "file_bytes": bad.hex()[:200], "stdin": inp.hex(),
                                   "regular_file": [a[0], a[1]], "named_pipe": [b[0], b[1]], "named_pipe_stderr": got[2].decode("utf-8", "replace")[-300:]})
    # loader on arbitrary byte strings
    files = loader_files(rnd, ctx.tier)
    model_l = ctx.run_model([lc3_case(0, 5000, list(b), []) for b in files], tag="lc3")
    def ljob(i):
        def run():
            sub = os.path.join(d, "l" + str(i)); os.makedirs(sub, exist_ok=True)
            name = "x.lc3" if i % 2 == 0 else "x.obj"
            open(os.path.join(sub, name), "wb").write(files[i])
            return clicommon.run_cli(exe, ["run", name, "--minimal"], sub, stdin=b"", timeout=5)
        return run
    lres = clicommon.parallel([ljob(i) for i in range(len(files))])
    lhist = {}
    for i, (rc, so, se) in enumerate(lres):
        code, out, kind = clicommon.model_obs(model_l[i][0])
        lhist[kind] = lhist.get(kind, 0) + 1
        if kind in (3, 4):
            continue
        ev += 1
        sigs.add(("loader", kind, code, len(files[i]) % 2, min(len(files[i]), 4)))
        got_out = clicommon.program_output(so)
        bad = rc != code or (out is not None and kind != 5 and got_out != out) or (kind == 5 and got_out is not None)
        if bad:
            nv += 1
            if nv <= 12:
                violations.append({"kind": "loader", "file_bytes": files[i].hex(), "cli_exit": rc, "cli_output": got_out,
                                   "cli_stderr": se.decode(errors="replace")[-300:], "model": [code, out, kind]})
    # files far longer than the address space (sparse: they cost no disk): the model cannot be handed 10^11 bytes, so the
    # expectation comes from the THEOREM C06_loader_iff / C06_loader_rejects - odd length: exit 1 (not aligned); even length
    # beyond the address space: exit xEE (too long) - never a crash, never a hang, whatever memory the machine has
    huge = []
    for size in (131074, 131075, 1 << 20, (1 << 20) + 1, 1 << 32, (1 << 32) + 1, 200 * (1 << 30), 200 * (1 << 30) + 1, 8 * (1 << 40), 8 * (1 << 40) + 1):
        sub = os.path.join(d, "huge%d" % len(huge)); os.makedirs(sub, exist_ok=True)
        name = os.path.join(sub, "big.lc3" if len(huge) % 4 < 2 else "big.obj")
        try:
            with open(name, "wb") as f:
                f.write(b"\x30\x00\xf0\x25"); f.truncate(size)
        except OSError:
            continue                      # the file system cannot hold a file of this (apparent) size
        rc, so, se = clicommon.run_cli(exe, ["run", os.path.basename(name), "--minimal"], sub, stdin=b"", timeout=60)
        os.remove(name)
        want = 1 if size % 2 else 238
        ev += 1
        huge.append((size, rc))
        sigs.add(("huge", size % 2, rc))
        if rc != want:
            nv += 1
            violations.append({"kind": "loader-huge-file", "apparent_size_bytes": size, "first_bytes": "3000f025 then zeros (sparse)", "cli_exit": rc,
                               "expected_exit": want, "expected_from": "C06_loader_iff / C06_loader_rejects (odd length: 1; even and too long: 238)",
                               "cli_stderr": se.decode(errors="replace")[-300:]})
    # file NAMES whose extension is not valid UTF-8: not an object file's name, so an error exit - not a crash
    for nm in ("prog.\udcff", "prog.lc3\udcff", "prog.ob\udcffj", "p\udcfe.\udcff\udcfe"):
        sub = os.path.join(d, "ext%d" % ev); os.makedirs(sub, exist_ok=True)
        with open(os.path.join(sub, nm), "wb") as f:
            f.write(bytes.fromhex("3000f025"))
        for form in (["run"], [], ["debug"]):
            rc, so, se = clicommon.run_cli(exe, form + [nm, "--minimal"], sub, stdin=b"", timeout=10)
            ev += 1
            sigs.add(("ext", rc))
            if rc != 1:
                nv += 1
                violations.append({"kind": "loader-file-name", "file_name_bytes": os.fsencode(nm).hex(), "command": form, "cli_exit": rc, "expected_exit": 1,
                                   "cli_stderr": se.decode(errors="replace")[-300:]})
    ctx.cleanup()
    return {
        "evaluations": ev, "distinct_nontrivial": len(sigs), "huge_sparse_files": [list(x) for x in huge],
        "rule": "CLI: `lace compile` bytes and exit status vs the model's object bytes for random programs (both feature settings; the destination absent, or already holding a longer or a shorter object file), "
                "all origins); `lace run file.lc3` vs `lace run file.asm` vs the model (exit status and program output, with stdin); "
                "the same through the other invocation forms (`lace FILE`, the object under .obj, `compile` without a destination); loader fed byte strings of every length 0-9, odd lengths, images ending at/below/above the top of memory and random "
                "images, as .lc3 and .obj; sparse files of 128 KiB+2 .. 8 TiB apparent size, even and odd (expected exit from C06_loader_iff); file names whose extension is not valid UTF-8 (error exit, no crash); distinct = distinct (kind, outcome, size class)",
        "histogram": hist, "loader_histogram": {str(k): v for k, v in lhist.items()}, "samples": samples, "mismatches": nv,
    }


def replay(ctx, payload):
    log(str({k: payload.get(k) for k in ("kind", "source", "file_bytes", "cli_exit", "model", "model_exit")}))
    log("re-run ./lv check C06 to re-evaluate; the payload holds the source/bytes and both sides' observations")
    return 1
