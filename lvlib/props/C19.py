"""C19 — assembling is a pure function of the source text (with the documented reset in between)."""
import itertools, random
import asmgen, asmcommon

# parts of an assembly result the property does not speak about: a difference in these alone breaks the
# correspondence but is not an input on which the property fails (reported with no-failing-input-found)
AUX = ()

ASSUMPTIONS = [
    "StaticSource::reclaim (manual lifetime) is exercised under the normal allocator only; a use-after-free that does not change behaviour is invisible here",
    "the only process state the model carries between assemblies is the symbol table; the implementation is run for real, so any other leaked state shows as a mismatch",
]

POOL = [
    "halt\n", "a halt\n", "a halt\nbr a\n", "br a\na halt\n", "a .fill #1\nb .fill #2\nld r0 a\nst r0 b\n",
    "b halt\na halt\n", "A halt\n", "a\n", "a a halt\n", "a halt\na halt\n", "br nowhere\n", "a halt\nbr nowhere\n",
    "a halt\nb halt\nc `\n", "a halt\nb \"unterminated\n", "a halt\n.orig x3000\n.orig x4000\n", ".orig x4000\na halt\n",
    "a .stringz \"hi\"\nlea r0 a\nputs\nhalt\n", "loop add r0 r0 #1\nbrp loop\n", "loop and r0 r0 #0\n", "x1 halt\n",
    "a halt\n.blkw x200\nbr a\n", "a .break\nhalt\n", ".break\na halt\n", "a halt ; comment\n", "é\n", "a é\n",
    "a add r0 r0 #99\n", "BUF .fill #1\nBuf .fill #2\nld r0 buf\nhalt\n", "Lbl halt\nbr lbl\n", "br LBL\nlbl halt\n",
    "push r0\nhalt\n", "add r0 r0 #1\npop r1\n", "rets\n", "a call a\n", "halt\nPUSH r1\n", "getc\nout\nhalt\n", "puts\n",
    "buf .blkw #-32768\nhalt\n", "buf .blkw #-30000\nld r0 buf\n", "x_ .blkw #-1\n", "halt\n.blkw #-32000\n",
    "l1 halt\nl2 halt\nl3 halt\nl4 halt\nl5 halt\nl6 halt\nL1 halt\nbr l1\nbr L1\n", "aa halt\nbb halt\ncc halt\ndd halt\nee halt\nee halt\n", "a halt\nb add r0 r0\n", "", "\n\n", "a trap x25\nb trap x26\n", "b halt\nbr a\n",
]


def gen_cases(tier, seed):
    rnd = random.Random(seed)
    cases, tags = [], []
    pool = list(POOL)
    for i in range(20 if tier == "quick" else 200):
        items = asmgen.gen_program(rnd, stack=False, nstmts=rnd.choice([1, 2, 4]))
        pool.append(asmgen.render(rnd, items, style="plain"))
    # every source alone
    for s in pool:
        cases.append(asmgen.asm_case(0, [(1, s)])); tags.append("alone")
    # all ordered pairs with a reset in between (and the same pair without, to exercise the table)
    pairs = list(itertools.product(range(len(pool)), repeat=2))
    if tier == "quick":
        rnd.shuffle(pairs)
        lexfail = [i for i, t in enumerate(pool) if any(w in t.lower() for w in ("push", "pop", "rets", "call", "`", "\"unterminated"))]
        must = [(i, j) for i in lexfail for j in range(len(POOL))]          # every failing-in-the-lexer predecessor x every pool source
        pairs = must + [p for p in pairs[:1200] if p not in set(must)]
    for i, j in pairs:
        cases.append(asmgen.asm_case(0, [(1, pool[i]), (1, pool[j])])); tags.append("pair-reset")
    for i, j in pairs[: len(pairs) // 3]:
        cases.append(asmgen.asm_case(0, [(1, pool[i]), (0, pool[j])])); tags.append("pair-noreset")
    # the process CONFIGURATION is not assembler state: with the stack extension switched on (once, before the first
    # assembly) it stays on across every reset - sources using the extension, alone, in pairs, in sequences, repeated
    spool = [t for t in pool if any(w in t.lower() for w in ("push", "pop", "rets", "call"))] + \
            ["push r1\npop r2\nhalt\n", "call f\nhalt\nf rets\n", "a push r0\nb pop r0\nadd r0 r0\n", "halt\n", "a halt\nbr a\n"]
    for s in spool:
        cases.append(asmgen.asm_case(1, [(1, s)])); tags.append("alone")
    for i, a in enumerate(spool):
        for j, b in enumerate(spool):
            cases.append(asmgen.asm_case(1, [(1, a), (1, b)])); tags.append("pair-reset")
    for _ in range(60 if tier == "quick" else 1500):
        seq = [(1, rnd.choice(spool)) for _ in range(rnd.choice([3, 4, 6]))]
        cases.append(asmgen.asm_case(1, seq)); tags.append("seq-reset")
        s = rnd.choice(spool)
        cases.append(asmgen.asm_case(1, [(1, s), (1, s), (1, s)])); tags.append("repeat")
    # triples and repetition
    for _ in range(400 if tier == "quick" else 5000):
        k = rnd.choice([3, 3, 4, 6])
        seq = [(1, rnd.choice(pool)) for _ in range(k)]
        cases.append(asmgen.asm_case(0, seq)); tags.append("seq-reset")
        s = rnd.choice(pool)
        cases.append(asmgen.asm_case(0, [(1, s), (1, s), (1, s)])); tags.append("repeat")
    # table-size classes: sources recording N labels for N around the growth steps of a hash table (3, 7, 14, 28, 56,
    # 112, 224, 448 ...), valid and failing at the end, followed by sources that repeat them, share one label name, or
    # only REFERENCE a label the predecessor defined
    sizes = [1, 3, 4, 7, 8, 14, 15, 28, 29, 56, 57, 58, 112, 113, 200] + ([224, 225, 448, 449, 900, 2000] if tier != "quick" else [300])
    for n in sizes:
        big = "".join(f"v{k} .fill #{k % 100}\n" for k in range(n)) + "halt\n"
        bigbad = "".join(f"v{k} .fill #{k % 100}\n" for k in range(n)) + "add r0 r0\n"
        last = f"v{n - 1}"
        followers = [big, f"ld r0 {last}\nhalt\n", f"{last} halt\n", f"ld r0 v0\nhalt\n", f"v0 halt\nbr v0\n", "halt\n"]
        for first in (big, bigbad):
            for f in followers:
                cases.append(asmgen.asm_case(0, [(1, first), (1, f)])); tags.append("table-size")
                cases.append(asmgen.asm_case(0, [(1, first), (1, f), (1, f)])); tags.append("table-size")
            cases.append(asmgen.asm_case(0, [(1, first), (1, "a halt\n"), (1, first), (1, f"ld r0 {last}\nhalt\n")])); tags.append("table-size")
    # LONG histories: a source that records a label, then exactly N other assemblies (each followed by a reset), then a source that
    # only REFERENCES that label (a fresh assembly rejects it) or defines it again (a fresh assembly accepts it) - for N around
    # 255 / 256 / 257 and 511 / 512 [65,535 / 65,536]: whatever counter or generation stamp a reset might keep, it may not
    # come round to the one the label was recorded under
    for n in ([254, 255, 256, 257, 511, 512] if tier == "quick" else [254, 255, 256, 257, 511, 512, 1023, 1024, 65535, 65536]):
        for last in ("ld r0 ghost\nhalt\n", "br ghost\n", "ghost halt\nbr ghost\n"):
            seq = [(1, "ghost .fill #7\nhalt\n")] + [(1, "halt\n")] * n + [(1, last)]
            cases.append(asmgen.asm_case(0, seq)); tags.append("long-history")
    return cases, tags, pool


def correspondence(ctx, violations, known_hits):
    cases, tags, pool = gen_cases(ctx.tier, ctx.seed)
    profiles = ("debug",) if ctx.tier == "quick" else ("debug", "release")
    r = asmcommon.run_asm_cases(ctx, cases, tags, violations, profiles, aux=AUX,
                                prop_note="model: after a reset the result equals a fresh assembly (C19_pure); a mismatch in a later source of a sequence is state leaking across assemblies")
    # direct check on the implementation's own answers: B after (A, reset) == B alone
    # (the implementation alone, with what each assembly PRINTED — warnings — included in its answer: kind ASMW)
    ri, _ = ctx.run_impl(["ASMW" + c[3:] for c in cases], profile="debug", tag="c19d")
    alone = {}
    for c, t, a in zip(cases, tags, ri):
        if t == "alone" and a:
            dc = asmcommon.decode_case(c)
            alone[(dc[0], dc[1][0][1])] = a[0]
    direct = 0
    for c, t, a in zip(cases, tags, ri):
        if t in ("pair-reset", "seq-reset", "repeat", "table-size", "long-history") and a:
            ft, srcs = asmcommon.decode_case(c)[:2]
            for k, (reset, text) in enumerate(srcs):
                if (ft, text) in alone and k < len(a):
                    direct += 1
                    if a[k] != alone[(ft, text)] and len(violations) < 10:
                        violations.append({"kind": "history-dependent-result", "case": c, "sources": srcs, "source_index": k,
                                           "in_sequence": a[k], "alone": alone[(ft, text)]})
    # `lace watch` itself: one real watcher process driven through versions that succeed with NO statement yet record a
    # label, fail half-way, or only reference what a predecessor defined; each re-check against a fresh `lace check` (model)
    from props import C07
    seq = ["start .orig x3000\n", "start add r0 r0 #1\nhalt\n", "here .break\n", "br here\nhalt\n", "", "lonely .break\n.end\n",
           "lonely halt\nbr lonely\n", "a1 halt\na2 add r0\n", "br a1\nhalt\n", "start .orig x3000\n", "br start\nhalt\n", "halt\n"]
    if ctx.tier != "quick":
        seq = seq + [t for t in pool if isinstance(t, str)][:40]
    # versions written in the stack extension's mnemonics, watched without and with `-f stack`: a re-check answers what a
    # fresh `lace check` under the same flag answers (diagnostic `stack extension not enabled` / success), whichever thread runs it
    watch = C07.drive_watch(ctx, ctx.cli(), [], [], violations, seq=seq + C07.STACK_SEQ[:4] + ["halt\n"], feat=0)
    watch1 = C07.drive_watch(ctx, ctx.cli(), [], [], violations, seq=C07.STACK_SEQ + seq[:4], feat=1)
    watch = {"without_flag": watch, "with_stack_flag": watch1, "rechecks": watch["rechecks"] + watch1["rechecks"]}
    rep = repeated_processes(ctx, violations)
    ctx.cleanup()
    return {
        "evaluations": r["evaluations"] + watch["rechecks"], "distinct_nontrivial": len(r["sigs"]), "real_watch": watch, "repeated_processes": rep,
        "rule": f"pool of {len(pool)} sources (valid, failing in the lexer, failing after labels were recorded, sharing label names, "
                "case-differing labels, .break/.orig interleavings; the extension's sources also with the feature switched on once for the whole sequence) : each alone, ordered pairs with a reset in between (all pairs in the "
                "thorough tier), a third of them also WITHOUT reset (to tie the symbol-table model to the code), random sequences of "
                "3-6 with resets, threefold repetition; sources recording N labels for N around every growth step of a hash table (1..200 [..2000]) followed by sources that repeat them, share a label name or only reference a label of the predecessor; plus a direct comparison of the implementation's answer for B in a sequence "
                "with its answer for B alone; eight sources (several undefined / duplicate labels, several errors, warnings) through `lace check` and `lace compile` in 8 separate processes each, everything shown must be identical; one real `lace watch` process driven through versions that succeed without any statement yet record a label (`start .orig`, `here .break`), fail half-way, or only reference a predecessor's label, every re-check vs the model's verdict for that version alone; distinct = distinct (sequence class, outcome, diagnostic)",
        "direct_history_comparisons": direct,
        "outcome_histogram": r["hist"], "samples": r["samples"], "mismatches": r["mismatches"], "profiles": list(profiles),
    }


def repeated_processes(ctx, violations):
    """The same source through `lace check` and `lace compile` in SEPARATE processes, eight times each: everything the user is
    shown (status, both streams, the object bytes) is the same every time - a result may not depend on a per-process random
    seed (hash-map iteration order) either.  Sources with several undefined / duplicate labels, several errors, warnings."""
    import os
    import clicommon
    exe = ctx.cli()
    d = clicommon.fresh_dir(ctx, "c19rep")
    srcs = ["br a\nld r1 b\nst r2 c\nlea r3 d\njsr e\nsti r4 f\nhalt\n", "a halt\na halt\nb halt\nb halt\nbr zz\nbr yy\n",
            "ld r0 q1\nld r0 q2\nld r0 q3\nld r0 q4\nld r0 q5\nld r0 q6\nld r0 q7\nld r0 q8\n", ".blkw #-1\n.blkw #-2\nhalt\nbr nowhere\nbr elsewhere\n",
            "x1 add r0 r0 #1\nx2 add r0 r0 #2\nbr x1\nbr x2\nbr X1\nbr X2\n", "halt\nadd r0 r0 #99\nbr u1\nbr u2\n",
            "".join("l%d add r0 r0 #1\n" % i for i in range(40)) + "".join("br m%d\n" % i for i in range(12)), "lea r0 s\nputs\nhalt\ns .stringz \"ok\"\n"]
    def job(i):
        def run():
            sub = os.path.join(d, str(i)); os.makedirs(sub, exist_ok=True)
            open(os.path.join(sub, "p.asm"), "w").write(srcs[i])
            seen = []
            for k in range(8):
                c = clicommon.run_cli(exe, ["check", "p.asm"], sub)
                m = clicommon.run_cli(exe, ["compile", "p.asm", "o.lc3"], sub)
                obj = open(os.path.join(sub, "o.lc3"), "rb").read() if os.path.exists(os.path.join(sub, "o.lc3")) else None
                seen.append((c, m, obj))
            return seen
        return run
    res = clicommon.parallel([job(i) for i in range(len(srcs))])
    bad = 0
    for i, seen in enumerate(res):
        if any(x != seen[0] for x in seen[1:]):
            bad += 1
            k = next(j for j, x in enumerate(seen) if x != seen[0])
            if bad <= 3:
                violations.append({"kind": "result-differs-between-repetitions", "source": srcs[i], "first_run_check_stderr": seen[0][0][2].decode("utf-8", "replace")[-400:],
                                   "run_%d_check_stderr" % k: seen[k][0][2].decode("utf-8", "replace")[-400:], "exits": [[x[0][0], x[1][0]] for x in seen]})
    return {"sources": len(srcs), "runs": len(srcs) * 16, "mismatches": bad,
            "rule": "each source through `lace check` and `lace compile` in 8 separate processes: exit status, stdout, stderr and object bytes identical every time"}


def replay(ctx, payload):
    return asmcommon.replay_asm(ctx, payload)
