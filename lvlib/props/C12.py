"""C12 — reset restores the initial machine exactly."""
import random
import dbggen, dbgcommon

# observations the property does not speak about: a difference in these alone breaks the correspondence
# but is not an input on which the property fails (reported with no-failing-input-found)
AUX = ('debugger output differs', 'cmds differs')

ASSUMPTIONS = [
    "that RunState::clone really copies the boxed memory and nothing aliases initial_state is a fact about Rust ownership; it is covered by the runs (full 65,536-word comparison after every session), not by the theorem",
]

MUT = ["move", "move", "goto", "eval", "step", "stepinto", "continue", "reset", "print", "breakadd"]


def gen(tier, seed):
    rnd = random.Random(seed)
    n = 1200 if tier == "quick" else 120000
    specs, fresh = [], []
    for i in range(n):
        p = dbggen.PROGRAMS[i % len(dbggen.PROGRAMS)]
        src, feat = p(rnd)
        orig = dbggen.origin_of(src)
        cmds = dbggen.gen_script(rnd, MUT, orig, 12, maxlen=14, end="eof")
        # stores into the program's own code, below the origin (refused) and into the stack area
        extra = [("move", ("mem", ("addr", orig + rnd.randrange(0, 6))), rnd.randrange(65536)),
                 ("move", ("mem", ("addr", (orig - 1) & 0xFFFF)), 0x1234),
                 ("move", ("mem", ("addr", 0xFDFF)), 0xBEEF), ("move", ("reg", 7), rnd.randrange(65536))]
        rnd.shuffle(extra)
        cmds = cmds[: len(cmds) // 2] + extra[: rnd.randrange(0, 5)] + cmds[len(cmds) // 2:]
        end = rnd.choice(["exit", "quit", "reset-again"])
        if end == "exit":
            full = cmds + [("reset",), ("registers",), ("exit",)]
        elif end == "quit":
            full = cmds + [("reset",), ("quit",)]              # reset followed by a complete run
            fresh.append((len(specs), len(specs) + 1))
        else:
            full = cmds + [("reset",), ("move", ("reg", 1), 7), ("reset",), ("reset",), ("registers",), ("exit",)]
        specs.append((end + ":" + p.__name__, feat, src, [], full))
        if end == "quit":
            specs.append(("fresh:" + p.__name__, feat, src, [], []))
    for p in dbggen.PROGRAMS + dbggen.PROGRAMS_LATER:
        for r0 in (0, 1):
            src, feat = p(random.Random(3))
            pre = [("move", ("reg", 0), 0)] if r0 else []
            for body in ([("continue",)], [("stepinto", 9)], [("eval", "str r7 r0 #-1")], [("eval", "str r7 r0 #-1"), ("continue",)]):
                specs.append(("run-reset:" + p.__name__, feat, src, [], pre + body + [("reset",), ("registers",), ("print", ("mem", ("addr", 0xFFFF))), ("exit",)]))
                specs.append(("run-reset-reset:" + p.__name__, feat, src, [], pre + body + [("reset",)] + body + [("reset",), ("reset",), ("exit",)]))
    # writes SCATTERED over memory (different words of one 64-word block, different blocks of one 4K region, different regions,
    # the first and last user-space word) in every order of two and in some orders of four: whatever bookkeeping `reset` might keep
    # about what was written, every one of them comes back
    import itertools
    src0, _ = dbggen.p_countdown(random.Random(1))
    spots = [0x3005, 0x3006, 0x3040, 0x3100, 0x3200, 0x3FFF, 0x4000, 0x7FFF, 0x8000, 0xFDFF]
    for a, b in itertools.permutations(spots, 2):
        specs.append(("scattered-writes", 0, src0, [], [("move", ("mem", ("addr", a)), 0x1111), ("move", ("mem", ("addr", b)), 0x2222), ("reset",), ("registers",), ("exit",)]))
    rs = random.Random(seed + 5)
    for _ in range(40 if tier == "quick" else 2000):
        four = rs.sample(spots, 4)
        cmds = [("move", ("mem", ("addr", a)), 0x1000 + i) for i, a in enumerate(four)]
        cmds.insert(rs.randrange(1, 4), rs.choice([("stepinto", 3), ("eval", "st r0 #20"), ("reset",), ("continue",)]))
        specs.append(("scattered-writes", 0, src0, [], cmds + [("reset",), ("registers",), ("exit",)]))
    return rnd, specs, fresh


def store_loops(counts):
    """A program that stores into `cell` exactly sum(counts) times (each count 1..65536) and then reaches `done`."""
    lines, fills = [], []
    for i, n in enumerate(counts):
        lines += [f"        ld r2 n{i}",
                  f"l{i}      st r2 cell", "        add r2 r2 #-1", f"        brnp l{i}"]
        fills.append(f"n{i}      .fill x{n & 0xFFFF:04X}")
    return "\n".join(lines + ["done    add r3 r3 #1", "        halt", "cell    .fill x1234"] + fills) + "\n"


def many_stores(tier):
    """Sessions in which the program stores a given NUMBER of times before `reset` (what a change counter of 8, 16 or 17 bits
    would see as 'nothing stored'): 255 / 256 / 257, 65,535 / 65,536 / 65,537, 131,072 stores, then reset and a look at everything."""
    sets = [[255], [256], [257], [65535], [65536], [65536, 1], [65536, 65536]]
    if tier == "quick":
        sets = [[256], [65535], [65536], [65536, 65536]]
    specs = []
    for counts in sets:
        src = store_loops(counts)
        tag = "stores-%d" % sum(counts)
        specs.append((tag, 0, src, [], [("breakadd", ("label", "done", 0)), ("continue",), ("reset",), ("print", ("mem", ("label", "cell", 0))), ("registers",), ("exit",)]))
        specs.append((tag, 0, src, [], [("breakadd", ("label", "done", 0)), ("continue",), ("move", ("mem", ("label", "cell", 0)), 0x7777), ("reset",), ("reset",), ("registers",), ("exit",)]))
    return specs


def full_mode_sessions(tier, seed):
    """Sessions for the real binary without --minimal: the program changes its own image (or `move` / `eval` do), the inspection
    commands that DRAW something in full mode look at it (`assembly` with its source excerpt and its 'modified' note, `print`,
    `registers`, `break list`), then `reset` and a complete run - which must print what a fresh run prints."""
    rnd = random.Random(seed + 31)
    out = []
    progs = [dbggen.p_selfmod, dbggen.p_selfmod_halt, dbggen.p_swap, dbggen.p_countdown, dbggen.p_nested_jsr, dbggen.p_breaks]
    looks = ["assembly", "assembly ^0", "assembly ^1", "assembly ^-1", "print ^0", "registers", "break list", "assembly x3001", "assembly x3004", "print r0"]
    for p in progs:
        src, feat = p(random.Random(5))
        for k in range(0, 9):
            for look in (["assembly"], ["assembly", "assembly ^2"], [rnd.choice(looks), rnd.choice(looks)]):
                pre = ["step into %d" % k] if k else []
                out.append((feat, src, "\n".join(pre + look + ["reset", "continue", "quit"]) + "\n"))
        for _ in range(6 if tier == "quick" else 60):
            cmds = []
            for _ in range(rnd.randrange(2, 7)):
                cmds.append(rnd.choice(looks + ["step", "step into 2", "move x3002 x1021", "move r1 5", "eval add r1 r1 #1", "eval st r1 #-2", "goto x3001", "reset", "continue"]))
            out.append((feat, src, "\n".join(cmds + ["reset"] + [rnd.choice(looks)] + ["continue", "quit"]) + "\n"))
    return out


def correspondence(ctx, violations, known_hits):
    rnd, specs, fresh = gen(ctx.tier, ctx.seed)
    cases, tags = dbgcommon.make_cases(rnd, specs)
    big_cases, big_tags = dbgcommon.make_cases(rnd, many_stores(ctx.tier), fuel=1000000)
    profiles = ("debug",) if ctx.tier == "quick" else ("debug", "release")
    r = dbgcommon.run_dbg_cases(ctx, cases, tags, violations, profiles, aux=AUX,
                                note="model: reset = the saved initial state, which nothing ever writes (C12 theorems)")
    rb = dbgcommon.run_dbg_cases(ctx, big_cases, big_tags, violations, ("debug",), aux=AUX, text_too=False,
                                 note="the program stores 256 / 65,535 / 65,536 / 131,072 times before the reset; model: reset = the saved initial state")
    r["evaluations"] += rb["evaluations"]; r["mismatches"] += rb["mismatches"]
    ri, _ = r["results"]["debug"]
    direct, bad = 0, 0
    for a, b in fresh:
        fa, _ = dbgcommon.impl_fields(ri[a]) if ri[a] else (None, None)
        fb, _ = dbgcommon.impl_fields(ri[b]) if ri[b] else (None, None)
        if not fa or not fb or fa["kind"] == 4 or fb["kind"] == 4 or fa["attached"] != 0:
            continue          # (still attached: the session ended before it reached the final reset; quit)
        direct += 1
        # the program output of the part before the reset remains; compare machine and exit status
        if any(fa[k] != fb[k] for k in ("kind", "code", "pc", "cc", "regs", "mem")) or fa["out"][-len(fb["out"]):] != fb["out"] and fb["out"]:
            bad += 1
            if bad <= 5:
                violations.append({"kind": "run-after-reset-differs-from-fresh-run", "case": cases[a], "fresh_case": cases[b],
                                   "after_reset": ri[a][0], "fresh": ri[b][0]})
    real = dbgcommon.cli_cross(ctx, specs, violations, limit=(30 if ctx.tier == "quick" else 600))
    r["evaluations"] += real.get("sessions", 0)
    real["full_output_mode"] = dbgcommon.cli_full_vs_minimal(ctx, full_mode_sessions(ctx.tier, ctx.seed), violations)
    r["evaluations"] += real["full_output_mode"]["sessions"]
    ctx.cleanup()
    return dbgcommon.coverage(r,
        "random histories of executing and mutating commands (move to registers/memory incl. the program's own code, below the origin, "
        "the stack area; goto; eval; step/continue; earlier resets) followed by reset, ended by (a) `registers; exit` — full machine "
        "snapshot incl. all 65,536 words, (b) `quit` — a complete run after the reset, compared with a fresh run of the same program, "
        "(c) mutate-reset-reset-exit; the real binary without --minimal against itself with it on sessions where `assembly` / `print` / `registers` / `break list` look at a changed image before the reset; and programs that store exactly 256 / 65,535 / 65,536 / 131,072 (thorough: also 255, 257, 65,537) times before the reset", profiles, fresh_run_comparisons=direct, fresh_run_mismatches=bad, real_binary_without_hooks=real)


def replay(ctx, payload):
    return dbgcommon.replay_dbg(ctx, payload)
