"""C10 — stepping commands execute exactly what they promise."""
import itertools, random
import dbggen, dbgcommon

# observations the property does not speak about: a difference in these alone breaks the correspondence
# but is not an input on which the property fails (reported with no-failing-input-found)
AUX = ('debugger output differs', 'cmds differs')

ASSUMPTIONS = [
    "`step` over a recursive call pauses at the first return to the following address (depth is not tracked, as the code's own doc comment says)",
    "`step out` is only available with `-f stack` (pinned by the existing expected-output test)",
]

PROGS = [dbggen.p_call_next, dbggen.p_call_next_loop, dbggen.p_countdown, dbggen.p_nested_jsr, dbggen.p_call_rets, dbggen.p_push_pop, dbggen.p_halt_middle,
         dbggen.p_breaks, dbggen.p_selfloop, dbggen.p_exception, dbggen.p_no_halt, dbggen.p_high, dbggen.p_selfmod,
         dbggen.p_unknown_trap]


def alphabet(orig):
    a = [("step",), ("stepout",), ("continue",)]
    a += [("stepinto", k) for k in (0, 1, 2, 3, 7, 100)]
    a += [("breakadd", ("addr", orig + k)) for k in (1, 3)]
    a += [("breakremove", ("addr", orig + 3))]
    a += [("goto", ("addr", orig + k)) for k in (0, 4)]
    return a


def gen(tier, seed):
    rnd = random.Random(seed)
    specs = []
    # every variant of "a call whose target is the following address" x every resuming command at every point
    for s7 in range(12):
        src, feat0 = dbggen.p_call_next(random.Random(s7))
        for feat in sorted({feat0, 1}):
            for k in range(0, 8):
                for x in (("step",), ("stepinto", 1), ("continue",), ("stepout",)):
                    pre = [("stepinto", k)] if k else []
                    specs.append(("call-next", feat, src, [], pre + [x, ("registers",), ("step",), ("registers",), ("exit",)]))
    depth = 2 if tier == "quick" else 3
    for p in PROGS:
        src, feat = p(random.Random(7))
        orig = dbggen.origin_of(src)
        al = alphabet(orig)
        for L in range(1, depth + 1):
            for combo in itertools.product(al, repeat=L):
                specs.append(("exh:" + p.__name__, feat, src, [], list(combo) + [("registers",), ("exit",)]))
        if feat == 0:   # also with the stack feature, where `step out` is available
            for combo in itertools.product(al, repeat=min(depth, 2)):
                specs.append(("exh-stack:" + p.__name__, 1, src, [], list(combo) + [("registers",), ("exit",)]))
    # every resuming command issued at EVERY point of each program's run: step into k, then X
    for p in PROGS:
        src, feat0 = p(random.Random(7))
        for feat in sorted({feat0, 1}):
            for k in range(1, 41 if tier == "quick" else 81):
                for x in (("step",), ("stepout",), ("continue",), ("stepinto", 1), ("stepinto", 2)):
                    specs.append(("at-every-pc:" + p.__name__, feat, src, [], [("stepinto", k), ("registers",), x, ("registers",), ("exit",)]))
    n = 1500 if tier == "quick" else 100000
    kinds = ["step", "stepinto", "stepout", "continue", "breakadd", "breakremove", "goto", "reset"]
    for i in range(n):
        p = PROGS[i % len(PROGS)]
        src, feat = p(rnd)
        cmds = dbggen.gen_script(rnd, kinds, dbggen.origin_of(src), 12, maxlen=12, end="exit")
        cmds.insert(len(cmds) - 1, ("registers",))
        specs.append(("rand:" + p.__name__, rnd.choice([feat, 1]), src, [], cmds))
    # (families added later come last: the sessions above stay what they were, seed for seed)
    # subroutines that return to the following address with something else in R7 (link kept elsewhere, plain branch back)
    for s7 in range(16):
        src, feat0 = dbggen.p_return_other_reg(random.Random(s7))
        for k in range(0, 10):
            for x in (("step",), ("stepinto", 1), ("continue",), ("stepout",)):
                pre = [("stepinto", k)] if k else []
                specs.append(("return-other-reg", feat0, src, [], pre + [x, ("registers",), ("step",), ("registers",), ("exit",)]))
    for p in dbggen.PROGRAMS_LATER:
        for s7 in range(8):
            src, feat0 = p(random.Random(s7))
            orig = dbggen.origin_of(src)
            for combo in itertools.product(alphabet(orig), repeat=2):
                specs.append(("exh:" + p.__name__, feat0, src, [], list(combo) + [("registers",), ("exit",)]))
            for feat in sorted({feat0, 1}):
                for k in range(1, 13):
                    for x in (("step",), ("stepout",), ("continue",), ("stepinto", 1), ("stepinto", 2)):
                        specs.append(("at-every-pc:" + p.__name__, feat, src, [], [("stepinto", k), ("registers",), x, ("registers",), ("exit",)]))
    return rnd, specs


def correspondence(ctx, violations, known_hits):
    rnd, specs = gen(ctx.tier, ctx.seed)
    cases, tags = dbgcommon.make_cases(rnd, specs)
    profiles = ("debug",)
    r = dbgcommon.run_dbg_cases(ctx, cases, tags, violations, profiles, aux=AUX,
                                note="model: the status machine advances the reference machine by exactly the promised instructions (C10 theorems)")
    real = dbgcommon.cli_cross(ctx, specs, violations, limit=(30 if ctx.tier == "quick" else 600))
    r["evaluations"] += real.get("sessions", 0)
    ctx.cleanup()
    return dbgcommon.coverage(r,
        "EXHAUSTIVE command sequences up to length 2 (thorough: 3) over {step, step out, continue, step into k (k in 0,1,2,3,7,100), "
        "break add a (2 addresses), break remove a, goto a (2 addresses)} followed by `registers; exit`, on 12 programs (loops, nested "
        "and recursive subroutines in both calling conventions, HALT in the middle/at the end, .break directives, tight loops, "
        "exceptions), with and without the stack feature; every resuming command issued after `step into k` for EVERY k up to 40 "
        "(thorough 80), i.e. at every point of each program's run; plus random longer scripts incl. reset; compared: the paused machine "
        "(registers, PC, CC, memory, output), instructions executed, breakpoints, debugger output", profiles,
        exhaustive=True, exhaustive_over="command sequences up to the stated length over the stated alphabet", real_binary_without_hooks=real)


def replay(ctx, payload):
    return dbgcommon.replay_dbg(ctx, payload)
