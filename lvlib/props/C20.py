"""C20 — the interactive line editor keeps its cursor inside the line.

Correspondence: the real `Terminal::read` of src/debugger/command/reader/terminal.rs, fed with
scripted keys through the lace_verif hook in `term::read_key` (no TTY, no history file), observed
at the prompt before every key  vs.  Edit.session_key (extracted MODEL) and EditSpec.spec_key
(extracted SPEC), key by key: cursor, focus index, history length, submitted commands, shown line,
buffer; final history.

Exhaustive over all key sequences up to a length over the 14-key alphabet, from the empty and from
a 2-entry history; plus seeded random longer sequences over a wider pool; plus the table of
character classes the extracted model uses against Rust's `char` methods on the whole pool."""
import itertools, random
from core import log

ASSUMPTIONS = [
    "keys reach the editor as term::Key values: crossterm's event decoding, raw mode and the drawing of the prompt are outside the model (the prompt is drawn for the corpus and the random sequences, bypassed for the exhaustive bulk)",
    "history entries are not blank: lace only ever stores non-blank lines and (since the repair F33) skips blank lines when it loads the history file, which the real-terminal stage checks with hand-edited files; C20_total carries 'no blank entry' as its hypothesis for dbg = true",
    "the history file is not modelled (Terminal::verif_new has none); usize arithmetic is unbounded in the model (all counts are bounded by the line length)",
    "char::is_whitespace / char::is_alphanumeric are parameters of the theorems; the extracted driver's tables are compared with Rust's on every character the generator can emit (mode-2 case)",
]

ENTER, BACKSPACE, DELETE, LEFT, RIGHT, UP, DOWN, CTRL_LEFT, CTRL_RIGHT = range(9)
KEY_NAMES = {ENTER: "Enter", BACKSPACE: "Backspace", DELETE: "Delete", LEFT: "Left", RIGHT: "Right", UP: "Up",
             DOWN: "Down", CTRL_LEFT: "Ctrl+Left", CTRL_RIGHT: "Ctrl+Right"}


def ch(c):
    return 0x10 + (ord(c) if isinstance(c, str) else c)


# the 14-key alphabet of the exhaustive part
ALPHABET = [ch("a"), ch(" "), ch("+"), ch("é"), ch("😀"),
            BACKSPACE, DELETE, LEFT, RIGHT, CTRL_LEFT, CTRL_RIGHT, UP, DOWN, ENTER]
HISTORIES = [[], ["ab +é", "c;😀 d"]]

# characters of the random part: every class (blank / letter-digit / other) in 1, 2, 3 and 4 bytes,
# the command separator, ignored control characters
POOL_TEXT = list("ab z09 +-;.( \t") + ["\u00e9", "\u00df", "\u00b5", "\u00d7", "\u00a0", "\u0085", "\u03a9", "\u03bb",
                                         "\u20ac", "\u4e2d", "\u6587", "\u3000", "\u2003", "\U0001F600", "\U0001F642"]
POOL_CONTROL = ["\x00", "\x1b", "\x7f", "\r"]
# everything the extracted model's class tables claim to know exactly
CLASS_POOL = list(range(0, 0x100)) + list(range(0x391, 0x3AA)) + list(range(0x3B1, 0x3CA)) + \
    [0x1680, 0x2000, 0x2003, 0x200A, 0x200B, 0x2028, 0x2029, 0x202F, 0x205F, 0x20AC, 0x3000, 0x3001,
     0x4E00, 0x4E2D, 0x6587, 0x9FFF] + list(range(0x1F600, 0x1F650))


def case_line(mode, dbg, draw, hist, keys):
    nums = [mode, dbg, draw, len(hist)]
    for h in hist:
        nums.append(len(h))
        nums.extend(ord(c) for c in h)
    nums.append(len(keys))
    nums.extend(keys)
    return "C20 " + " ".join(f"{x:x}" for x in nums)


def parse_case(case):
    t = [int(x, 16) for x in case.split()[1:]]
    mode, dbg, draw, nh = t[0], t[1], t[2], t[3]
    i = 4
    hist = []
    for _ in range(nh):
        n = t[i]
        hist.append("".join(chr(c) for c in t[i + 1:i + 1 + n]))
        i += 1 + n
    nk = t[i]
    keys = t[i + 1:i + 1 + nk]
    return mode, dbg, draw, hist, keys


def key_name(k):
    if k in KEY_NAMES:
        return KEY_NAMES[k]
    c = k - 0x10
    return repr(chr(c)) if 0x20 <= c != 0x7f else f"U+{c:04X}"


def key_kind(k):
    if k in KEY_NAMES:
        return KEY_NAMES[k]
    c = k - 0x10
    if c < 0x20 or c == 0x7f:
        return "control-char"
    n = len(chr(c).encode("utf-8"))
    return f"char-{n}byte"


def corpus(dbg):
    """Fixed cases first: witnesses of the repaired defects, then shapes worth pinning."""
    H = HISTORIES[1]
    seqs = [
        ([], [ch("é"), CTRL_RIGHT, ch("a"), ENTER]),                               # F20: byte index as cursor
        ([], [ch("a"), ch(" "), ch(" "), CTRL_LEFT, CTRL_RIGHT, ch("+"), ENTER]),   # F20b: word + trailing blanks
        ([], [ch("😀"), ch("é"), LEFT, LEFT, CTRL_RIGHT, DELETE, ch("a"), ENTER]),
        ([], [ch("中"), ch("　"), ch("x"), CTRL_LEFT, CTRL_LEFT, CTRL_RIGHT, BACKSPACE, ENTER]),
        ([], [ch("a"), ch(";"), ch("b"), ch(";"), ENTER, UP, ENTER, ch(";"), ENTER, ch(";"), ch(";"), ENTER]),
        ([], [ch(" "), ENTER, ch(" "), ch("\t"), ENTER, ENTER, ch("a"), ENTER, UP, UP, DOWN, DOWN, DOWN, ENTER]),
        (H, [UP, ENTER, UP, ENTER, UP, UP, ENTER]),                                # history push only if different
        (H, [ch("x"), UP, LEFT, DOWN, ch("y"), UP, UP, UP, BACKSPACE, DOWN, ENTER]),  # draft kept while browsing
        (H, [UP, CTRL_LEFT, CTRL_LEFT, ch("é"), CTRL_RIGHT, CTRL_RIGHT, CTRL_RIGHT, ch(";"), ENTER]),
        (H, [UP, UP, DELETE, ENTER, UP, UP, UP, UP, CTRL_RIGHT, DELETE, DELETE, ENTER]),
        (H, [ch("\x00"), ch("\x7f"), ch("\x1b"), UP, ch("\r"), BACKSPACE, ENTER]),
        (["é;é", "  x  "], [UP, CTRL_LEFT, CTRL_LEFT, CTRL_RIGHT, ch("😀"), ENTER, UP, UP, UP, ENTER]),
    ]
    return [case_line(0, dbg, 1, h, k) for h, k in seqs]


def class_case():
    return "C20 2 " + " ".join(f"{c:x}" for c in CLASS_POOL if not 0xD800 <= c <= 0xDFFF)


def random_text(rnd, nonblank):
    while True:
        s = "".join(rnd.choice(POOL_TEXT) for _ in range(rnd.randrange(0, 9)))
        if not nonblank or s.strip() != "" and "\n" not in s:
            return s


def random_case(rnd, dbg):
    hist = [random_text(rnd, True) for _ in range(rnd.choice([0, 0, 1, 2, 3, 5]))]
    n = rnd.randrange(1, 61)
    keys = []
    p_char = rnd.choice([0.3, 0.5, 0.7])
    for _ in range(n):
        r = rnd.random()
        if r < p_char:
            keys.append(ch(rnd.choice(POOL_TEXT)))
        elif r < p_char + 0.02:
            keys.append(ch(rnd.choice(POOL_CONTROL)))
        else:
            keys.append(rnd.choice([BACKSPACE, DELETE, LEFT, LEFT, RIGHT, CTRL_LEFT, CTRL_LEFT, CTRL_RIGHT, CTRL_RIGHT,
                                    UP, DOWN, ENTER]))
    return case_line(0, dbg, 1, hist, keys)


def gen_cases(tier, seed, dbg):
    rnd = random.Random(seed)
    maxlen = 4 if tier == "quick" else 5
    nrandom = 2000 if tier == "quick" else 20000
    cases = corpus(dbg)
    origin = ["corpus"] * len(cases)
    for hist in HISTORIES:
        for n in range(0, maxlen + 1):
            for keys in itertools.product(ALPHABET, repeat=n):
                cases.append(case_line(0, dbg, 0, hist, list(keys)))
                origin.append("exhaustive")
    for _ in range(nrandom):
        cases.append(random_case(rnd, dbg))
        origin.append("random")
    return cases, origin, maxlen, nrandom


# ------------------------------------------------------------------ reading result lines

def parse_obs(line):
    """-> dict or None (panic / history line)"""
    t = [int(x, 16) for x in line.split()]
    if not t or t[0] != 0:
        return None
    cursor, focus, hlen, nsub = t[1], t[2], t[3], t[4]
    i = 5
    subs = []
    for _ in range(nsub):
        n = t[i]
        subs.append(t[i + 1:i + 1 + n])
        i += 1 + n
    n = t[i]
    cur = t[i + 1:i + 1 + n]
    i += 1 + n
    n = t[i]
    buf = t[i + 1:i + 1 + n]
    return {"cursor": cursor, "focus": focus, "hlen": hlen, "subs": subs, "line": cur, "buffer": buf}


def char_class(c):
    s = chr(c)
    if s.isspace():
        return "blank"
    return "alnum" if s.isalnum() else "other"


def situation(o):
    """Coarse description of the state a key is pressed in."""
    n = len(o["line"])
    pos = "empty" if n == 0 else "start" if o["cursor"] == 0 else "end" if o["cursor"] == n else "middle"
    under = char_class(o["line"][o["cursor"]]) if o["cursor"] < n else "-"
    before = char_class(o["line"][o["cursor"] - 1]) if 0 < o["cursor"] <= n else "-"
    multibyte = any(c >= 0x80 for c in o["line"])
    where = "history" if o["focus"] < o["hlen"] else "draft"
    return (where, pos, before, under, multibyte)


def effect(a, b):
    return ("cursor" + ("<" if b["cursor"] < a["cursor"] else ">" if b["cursor"] > a["cursor"] else "="),
            "text" + ("=" if b["line"] == a["line"] else "!"),
            "focus" + ("<" if b["focus"] < a["focus"] else ">" if b["focus"] > a["focus"] else "="),
            "sub%d" % min(len(b["subs"]), 3),
            "hist" + ("+" if b["hlen"] > a["hlen"] else "="))


def render(lines):
    out = []
    for ln in lines or []:
        o = parse_obs(ln)
        if o is None:
            out.append(ln)
        else:
            txt = "".join(chr(c) for c in o["line"])
            buf = "".join(chr(c) for c in o["buffer"])
            subs = ["".join(chr(c) for c in s) for s in o["subs"]]
            out.append(f"cursor={o['cursor']} focus={o['focus']}/{o['hlen']} line={txt!r} buffer={buf!r}"
                       + (f" submitted={subs!r}" if subs else ""))
    return out


def first_diff(a, b):
    for i, (x, y) in enumerate(zip(a or [], b or [])):
        if x != y:
            return i
    return min(len(a or []), len(b or []))


def as_spec(case):
    return case.replace("C20 0 ", "C20 1 ", 1)


# ------------------------------------------------------------------ the check

def correspondence(ctx, violations, known_hits):
    profiles = ["debug"] if ctx.tier == "quick" else ["debug", "release"]
    evaluations, nviol, keys_pressed = 0, 0, 0
    sigs, samples, khist, ohist, lhist = set(), [], {}, {}, {}
    vkeys = set()
    maxlen = nrandom = 0
    class_checked = 0
    for prof in profiles:
        dbg = 1 if prof == "debug" else 0
        cases, origin, maxlen, nrandom = gen_cases(ctx.tier, ctx.seed, dbg)
        cases = cases + [class_case()]
        origin = origin + ["classes"]
        ri, rm, crashes = ctx.run_both(cases, profile=prof, tag="c20")
        rs = ctx.run_model([as_spec(c) for c in cases[:-1]], tag="c20-spec")
        for c in crashes:
            idx = c.get("case_index")
            violations.append({"kind": "implementation-crashed", "profile": prof,
                               "case": cases[idx] if idx is not None else None, "detail": c["tail"]})
        # the class tables of the extracted model against Rust's char methods
        if ri[-1] is not None:
            bad = [(a, b) for a, b in zip(ri[-1], rm[-1]) if a != b]
            class_checked = len(rm[-1])
            if bad or len(ri[-1]) != len(rm[-1]):
                violations.append({"kind": "class-table-mismatch", "profile": prof, "no_failing_input": True,
                                   "detail": "cp ws alnum len_utf8: implementation vs model " + str(bad[:10])})
        for ci in range(len(cases) - 1):
            a, b, s = ri[ci], rm[ci], rs[ci]
            if a is None:
                continue
            evaluations += 1
            _, _, _, hist, keys = parse_case(cases[ci])
            keys_pressed += len(keys)
            if prof == profiles[0]:
                ohist[origin[ci]] = ohist.get(origin[ci], 0) + 1
                lk = str(len(keys)) if len(keys) <= 10 else f"{len(keys) // 10 * 10}-{len(keys) // 10 * 10 + 9}"
                lhist[lk] = lhist.get(lk, 0) + 1
                obs = [parse_obs(x) for x in b]
                for i, k in enumerate(keys):
                    kk = key_kind(k)
                    khist[kk] = khist.get(kk, 0) + 1
                    if i + 1 < len(obs) and obs[i] and obs[i + 1]:
                        sig = (kk, situation(obs[i]), effect(obs[i], obs[i + 1]))
                        if sig not in sigs:
                            sigs.add(sig)
                            if len(samples) < 8 and len(sigs) % 40 == 1:
                                samples.append({"history": hist, "keys": [key_name(x) for x in keys],
                                                "after_each_key": render(b)})
            if a != b or b != s:
                nviol += 1
                kind = "model-vs-implementation" if a != b else "model-vs-spec"
                d = first_diff(a, b) if a != b else first_diff(b, s)
                vk = (prof, kind, key_kind(keys[d - 1]) if 0 < d <= len(keys) else "-")
                if str(vk) in vkeys or len(vkeys) >= 10:
                    continue
                vkeys.add(str(vk))
                small = shrink(ctx, cases[ci], prof, kind)
                ri2, rm2, _ = ctx.run_both([small], profile=prof, tag="shr")
                rs2 = ctx.run_model([as_spec(small)], tag="shr-spec")
                _, _, _, h2, k2 = parse_case(small)
                d2 = first_diff(ri2[0], rm2[0]) if kind == "model-vs-implementation" else first_diff(rm2[0], rs2[0])
                violations.append({
                    "kind": kind, "profile": prof, "origin": origin[ci],
                    "case": small, "original_case": cases[ci],
                    "history": h2, "keys": [key_name(x) for x in k2],
                    "first_difference_after_key": d2,
                    "implementation": ri2[0], "model": rm2[0], "spec": rs2[0],
                    "implementation_readable": render(ri2[0]), "model_readable": render(rm2[0]),
                    "spec_readable": render(rs2[0]),
                    "format": "one line for the initial state and one after each key: 0 cursor focus histlen nsub "
                              "(len chars)*nsub len shown-line len buffer; 2 = panic; last line 9 nhist (len chars)*",
                    "note": "MODEL = SPEC is proved for all key lists (C20_submit), so a key sequence on which the "
                            "implementation departs from the model is one on which it departs from the reference "
                            "editor (or panics / leaves the line with its cursor)"})
    real = pty_stage(ctx, violations)
    evaluations += real["sessions"]
    ctx.cleanup()
    nalpha = len(ALPHABET)
    nexh = sum(nalpha ** n for n in range(maxlen + 1)) * len(HISTORIES)
    return {
        "evaluations": evaluations,
        "keys_pressed": keys_pressed,
        "distinct_nontrivial": len(sigs),
        "exhaustive": True,
        "exhaustive_domain": f"all key sequences of length <= {maxlen} over {nalpha} keys "
                             f"(a, space, +, e-acute (2 bytes), U+1F600 (4 bytes), Backspace, Delete, Left, Right, "
                             f"Ctrl+Left, Ctrl+Right, Up, Down, Enter) x histories {HISTORIES!r}: {nexh} sessions per profile",
        "random_sessions": nrandom,
        "rule": "sessions = fixed corpus (witnesses of the two repaired Ctrl+Right defects first) + ALL key sequences up "
                "to the stated length over the 14-key alphabet from the empty and from a 2-entry history (one entry "
                "contains ';' and a 4-byte character) + seeded random sequences of length <= 60 over blank/alnum/other "
                "characters of 1-4 bytes, ';', ignored control characters and all editing keys, from random histories "
                "of 0-5 non-blank entries; every key goes through the real Terminal::read; compared after EACH key: "
                "cursor, focus index, history length, commands handed out, shown line, buffer; at the end the whole "
                "history; implementation = MODEL = SPEC required line by line; "
                "distinct = distinct (key kind, situation = (draft/history, cursor at empty/start/middle/end, class "
                "of the characters before and under the cursor, line has multi-byte characters), effect = (cursor "
                "moved left/right, text changed, focus moved, number of commands submitted, history grew)) triples",
        "key_kind_histogram": khist, "origin_histogram": ohist, "sequence_length_histogram": lhist,
        "class_table_code_points_checked": class_checked,
        "profiles": profiles, "samples": samples, "mismatches": nviol, "real_terminal": real,
    }


# ------------------------------------------------------------------ the real terminal

KEY_BYTES = {ENTER: b"\r", BACKSPACE: b"\x7f", DELETE: b"\x1b[3~", LEFT: b"\x1b[D", RIGHT: b"\x1b[C", UP: b"\x1b[A",
             DOWN: b"\x1b[B", CTRL_LEFT: b"\x1b[1;5D", CTRL_RIGHT: b"\x1b[1;5C"}


def pty_session(exe, work, hist_file_text, keys, idx, slow=1.0, history_file_full=False):
    """One `lace debug --minimal` (built WITHOUT the hooks) on a pseudo-terminal: crossterm's raw mode and key decoding, the
    drawing of the prompt and the history FILE are all real.  -> (lines of the history file afterwards, exit status or None,
    tail of the terminal output)"""
    import os, pty, select, time, signal
    d = os.path.join(work, "pty%d" % idx)
    os.makedirs(os.path.join(d, "cache"), exist_ok=True)
    open(os.path.join(d, "p.asm"), "w").write("and r1 r1 #0\nhalt\n")
    hf = os.path.join(d, "cache", "lace-debugger-history")
    with open(hf, "w", encoding="utf-8") as f:
        f.write(hist_file_text)
    env = dict(os.environ, HOME=d, XDG_CACHE_HOME=os.path.join(d, "cache"), TERM="xterm", RUST_BACKTRACE="0", NO_COLOR="1")
    pid, fd = pty.fork()
    if pid == 0:
        os.chdir(d)
        if history_file_full:
            # the history file cannot grow: every append fails (as on a full disk), the file was opened all right
            import resource
            signal.signal(signal.SIGXFSZ, signal.SIG_IGN)
            sz = os.path.getsize(hf)
            resource.setrlimit(resource.RLIMIT_FSIZE, (sz, sz))
        os.execve(exe, [exe, "debug", "--minimal", "p.asm"], env)
    out = bytearray()

    def drain(quiet, limit):
        t0 = last = time.time()
        while time.time() - t0 < limit:
            r, _, _ = select.select([fd], [], [], 0.05)
            if r:
                try:
                    data = os.read(fd, 65536)
                except OSError:
                    return False
                if not data:
                    return False
                out.extend(data)
                last = time.time()
            elif time.time() - last >= quiet:
                return True
        return True

    alive = drain(0.6 * slow, 6.0 * slow)
    for k in keys:
        if not alive:
            break
        b = KEY_BYTES.get(k)
        if b is None:
            b = chr(k - 0x10).encode("utf-8")
        try:
            os.write(fd, b)
        except OSError:
            alive = False
            break
        alive = drain(0.5 * slow, 4.0 * slow) if k == ENTER else drain(0.04 * slow, 0.5 * slow)
    status = None
    t0 = time.time()
    while time.time() - t0 < 6.0:
        try:
            p, st = os.waitpid(pid, os.WNOHANG)
        except ChildProcessError:
            break
        if p:
            status = os.waitstatus_to_exitcode(st)
            break
        drain(0.05, 0.2)
    if status is None:
        try:
            os.kill(pid, signal.SIGKILL); os.waitpid(pid, 0)
        except OSError:
            pass
    try:
        os.close(fd)
    except OSError:
        pass
    lines = open(hf, encoding="utf-8", errors="replace").read().split("\n")
    if lines and lines[-1] == "":
        lines.pop()
    return lines, status, bytes(out if history_file_full else out[-600:]).decode("utf-8", "replace")


def pty_stage(ctx, violations):
    """A handful of sessions through the REAL terminal path.  Each key list is followed by enough Backspace/Delete to
    empty the line and by `exit` Enter (all of it given to the model too); afterwards the history FILE must hold exactly
    the model's final history, and the process must have ended with status 0 - no panic, whatever the history file held
    (blank lines in a hand-edited file included)."""
    import os
    exe = ctx.cli()
    work = os.path.join(ctx.work, "c20pty")
    os.makedirs(work, exist_ok=True)
    E = [ch(c) for c in "exit"]
    clear = [BACKSPACE] * 24 + [DELETE] * 24
    H = ["move r1 7", "print r"]
    sessions = [
        (H, [UP, UP, DOWN, ch("1"), ENTER]),
        (H, [ch("r"), ch("e"), ch("g"), UP, UP, DOWN, ch("1"), ENTER]),
        ([], [ch("é"), CTRL_RIGHT, ch("a"), ENTER]),
        ([], [ch("a"), ch(" "), ch(" "), CTRL_LEFT, CTRL_RIGHT, ch("+"), ENTER]),
        (["ab +é", "c 😀 d"], [UP, CTRL_LEFT, CTRL_LEFT, ch("x"), CTRL_RIGHT, DELETE, ENTER, UP, UP, LEFT, BACKSPACE, ENTER]),
        (H, [ch("p"), ch(" "), ch("r"), ch("0"), LEFT, LEFT, LEFT, LEFT, DELETE, RIGHT, RIGHT, BACKSPACE, ch("1"), UP, DOWN, ENTER]),
        ([], [ch(" "), ENTER, ch("😀"), LEFT, ch("é"), RIGHT, RIGHT, ch(";"), ch("b"), ENTER, UP, ENTER]),
        # a history FILE with blank lines (hand-edited): they are not entries; Up / Enter on what remains is harmless
        (["reg", "   ", "", "print r1"], [UP, ENTER, UP, UP, ENTER, UP, UP, UP, UP, ENTER]),
        (["", " "], [UP, ENTER, ch("r"), ch("e"), ch("g"), ENTER]),
    ]
    # lines whose length brings the drawn cursor column (prompt + cursor) to the edge of 16 bits: recalled from the history
    # file, walked over with Left / Right, submitted (an unknown command: harmless), then `exit`
    long_sessions = [(["a" * n], ks) for n in (65528, 65529, 65530) for ks in ([UP, ENTER], [UP, LEFT, LEFT, RIGHT, ENTER], [UP, ch("b"), ENTER])]
    if ctx.tier == "quick":
        long_sessions = [long_sessions[3]]      # 65,529 characters + Up (the extracted model is quadratic in the line length: ~30 s per such session)
    if ctx.tier != "quick":
        import random as _r
        rnd = _r.Random(ctx.seed + 9)
        for _ in range(40):
            hist = [random_text(rnd, True).replace("\t", " ") for _ in range(rnd.choice([0, 1, 2, 3]))]
            keys = [rnd.choice([ch(rnd.choice("ab 1+é😀;")), BACKSPACE, DELETE, LEFT, RIGHT, CTRL_LEFT, CTRL_RIGHT, UP, DOWN, ENTER]) for _ in range(rnd.randrange(3, 18))]
            sessions.append((hist, keys))
    tails = [clear + E + [ENTER]] * len(sessions) + [E + [ENTER]] * len(long_sessions)        # the long lines end with Enter: nothing to clear
    sessions = sessions + long_sessions
    cases = []
    for (hist, keys), tail in zip(sessions, tails):
        entries = [h for h in hist if h.strip() != ""]            # what the file's lines amount to as history entries
        cases.append(case_line(0, 1, 0, entries, keys + tail))
    model = ctx.run_model(cases, tag="c20pty")
    import concurrent.futures
    with concurrent.futures.ThreadPoolExecutor(4) as pool:
        futs = [pool.submit(pty_session, exe, work, "".join(h + "\n" for h in hist), keys + tail, i)
                for i, ((hist, keys), tail) in enumerate(zip(sessions, tails))]
        got = [f.result() for f in futs]
    n = bad = retried = 0
    for si, ((hist, keys), m, (lines, status, tail)) in enumerate(zip(sessions, model, got)):
        last = [int(x, 16) for x in m[-1].split()] if m else []
        want = None
        if last and last[0] == 9:
            want, i = [], 2
            for _ in range(last[1]):
                k = last[i]
                want.append("".join(chr(c) for c in last[i + 1:i + 1 + k]))
                i += 1 + k
        n += 1
        # the file keeps the lines it had (blank ones too); what is compared is the sequence of non-blank lines
        got_entries = [l for l in lines if l.strip() != ""]
        for slow in (3.0, 8.0):
            # keys that arrive while the terminal is between two prompts (raw mode off) are cooked by the line discipline:
            # a session that disagrees is run again, alone and much more slowly, before it counts
            if want is not None and status == 0 and got_entries == want:
                break
            retried += 1
            lines, status, tail = pty_session(exe, work, "".join(h + "\n" for h in hist), keys + tails[si], 1000 + si * 10 + int(slow), slow=slow)
            got_entries = [l for l in lines if l.strip() != ""]
        if want is None or status != 0 or got_entries != want:
            bad += 1
            if bad <= 4:
                violations.append({"kind": "real-terminal-session", "history_file_lines": [h if len(h) < 200 else "%r * %d" % (h[0], len(h)) for h in hist],
                                   "keys": [key_name(k) for k in keys] + ["(clear line)", "exit", "Enter"],
                                   "exit_status": status, "history_file_after": [l if len(l) < 200 else "%r... (%d characters)" % (l[:20], len(l)) for l in lines],
                                   "model_final_history": [l if len(l) < 200 else "%r... (%d characters)" % (l[:20], len(l)) for l in (want or [])],
                                   "terminal_tail": tail[-300:]})
    # a history FILE that cannot grow (every append fails): the line still belongs to the session's history - Up recalls it.
    # Observed through what the debugger DOES with the submitted lines: `echo <marker>` prints the marker once per submission.
    fh = ["registers"]
    fkeys = [ch(c) for c in "echo qzv"] + [ENTER, UP, ENTER, UP, UP, DOWN, ENTER] + E + [ENTER]
    fm = ctx.run_model([case_line(0, 1, 0, fh, fkeys)], tag="c20full")[0]
    # each observation line lists what was submitted at that key
    want_echo = sum(1 for x in fm for sub in ((parse_obs(x) or {}).get("subs") or []) if "".join(chr(c) for c in sub) == "echo qzv")
    if want_echo != 3:
        raise RuntimeError("C20 fault session: the model submits `echo qzv` %d times, 3 expected by design" % want_echo)
    got_echo = None
    for slow in (1.0, 3.0, 8.0):
        lines, status, text = pty_session(exe, work, "registers\n", fkeys, 900 + int(slow), slow=slow, history_file_full=True)
        # the echo command prints its argument on a line of its own (the typed text is drawn after the prompt, never alone)
        got_echo = sum(1 for l in text.replace("\r", "").split("\n") if l.strip() == "[qzv]")
        if status == 0 and got_echo == want_echo:
            break
    n += 1
    if status != 0 or got_echo != want_echo:
        bad += 1
        violations.append({"kind": "real-terminal-session", "fault": "the history file cannot grow (file-size limit = its size): every append fails",
                           "history_file_lines": fh, "keys": [key_name(k) for k in fkeys], "exit_status": status,
                           "times_the_echo_ran": got_echo, "times_the_model_submits_it": want_echo, "terminal_tail": text[-400:]})
    return {"sessions": n, "mismatches": bad, "slow_reruns": retried,
            "rule": "real `lace debug --minimal` on a pseudo-terminal (binary without hooks: crossterm raw mode and key decoding, prompt drawing, history file): history file afterwards = the model's final history, exit status 0; history files with blank lines included"}


def shrink(ctx, case, prof, kind):
    """Greedy delta debugging on the keys, then on the history, while the two sides still differ."""
    mode, dbg, draw, hist, keys = parse_case(case)

    def differs(h, k):
        c = case_line(0, dbg, draw, h, k)
        if kind == "model-vs-implementation":
            ri, rm, _ = ctx.run_both([c], profile=prof, tag="shr")
            return ri[0] != rm[0]
        rm = ctx.run_model([c, as_spec(c)], tag="shr")
        return rm[0] != rm[1]

    # cut behind the first difference first
    best_h, best_k = hist, keys
    changed, rounds = True, 0
    while changed and rounds < 200:
        changed = False
        rounds += 1
        for i in range(len(best_k) - 1, -1, -1):
            cand = best_k[:i] + best_k[i + 1:]
            if differs(best_h, cand):
                best_k = cand
                changed = True
                break
        if changed:
            continue
        for i in range(len(best_h) - 1, -1, -1):
            cand = best_h[:i] + best_h[i + 1:]
            if differs(cand, best_k):
                best_h = cand
                changed = True
                break
    return case_line(0, dbg, draw, best_h, best_k)


def replay(ctx, payload):
    case = payload["case"]
    prof = payload.get("profile", "debug")
    ri, rm, _ = ctx.run_both([case], profile=prof, tag="replay")
    rs = ctx.run_model([as_spec(case)], tag="replay-spec")
    _, _, _, hist, keys = parse_case(case)
    log(f"case    : {case}")
    log(f"history : {hist!r}")
    log(f"keys    : {[key_name(k) for k in keys]}")
    names = ["(start)"] + [key_name(k) for k in keys] + ["(final history)"]
    for who, r in (("implementation", ri[0]), ("model", rm[0]), ("spec", rs[0])):
        log(f"{who}:")
        for i, ln in enumerate(render(r)):
            log(f"   after {names[i] if i < len(names) else '?':<12} {ln}")
    same = ri[0] == rm[0] and rm[0] == rs[0]
    log("agree" if same else "DISAGREE")
    return 0 if same else 1
