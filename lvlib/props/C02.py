"""C02 — every instruction word executes as the ISA prescribes.

Correspondence: RunState::execute (through the lace_verif facade) vs. Vm.execute (extracted), on
ALL 65,536 instruction words for each of S structured machine states x both feature settings.
"""
import random
from core import InfraError, log

ASSUMPTIONS = [
    "RTI (opcode 8) is outside the claim: both sides report a panic (todo!) and are compared as such",
    "console output is observed through lace's --minimal filter (ESC dropped); the HALT banner's colour codes are stripped",
    "a PUTS/PUTSP string with no terminator anywhere in memory diverges in model and ISA alike; the generated memories contain terminators",
]

BOUND = [0, 1, 0x7FFF, 0x8000, 0xFFFF]


def gen_states(tier, seed):
    rnd = random.Random(seed)
    n = 3 if tier == "quick" else 120
    states = []
    for k in range(n):
        regs = BOUND + [rnd.randrange(65536), rnd.randrange(65536)]
        rnd.shuffle(regs)
        r7 = [0, 1, 0xFDFF, 0xFFFF][k % 4] if k % 5 != 4 else rnd.randrange(65536)
        regs = regs[:7] + [r7]
        orig = [0x3000, 0x3000, 0x0000, 0x8000, 0x0200][k % 5]
        pc = [orig, (orig + 1) % 65536, 0x7FFF, 0x8000, 0xFDFF, 0xFFFF, 0x0000, rnd.randrange(65536)][k % 8]
        cc = [0, 4, 2, 1][k % 4]
        mseed = rnd.randrange(65536)
        # pointer cells reachable PC-relative (LDI/STI): aim at 0, 0xFFFF, themselves, a register value
        ovs = []
        for off, val in ((-256, 0), (-1, 0xFFFF), (0, None), (1, regs[2]), (255, 0x8000), (37, 0xFFFF), (-100, 0)):
            a = (pc + off) % 65536
            ovs += [a, a if val is None else val]
        # a short string right at R0 for one state in three, so PUTS/PUTSP print something definite
        if k % 3 == 0:
            a = regs[0]
            for j, wv in enumerate((0x4241, 0x1B43, 0x00C9, 0x0000)):
                ovs += [(a + j) % 65536, wv]
        inp = [[0x41, 0xC3], [], [0x80], [0x7F, 0x0A]][k % 4]
        states.append(dict(seed=mseed, pc=pc, cc=cc, regs=regs, orig=orig, ovs=ovs, inp=inp))
    return states


def case_line(feat, st, wlo, whi):
    nums = [feat, st["seed"], st["pc"], st["cc"]] + st["regs"] + [st["orig"], wlo, whi,
            len(st["ovs"]) // 2] + st["ovs"] + [len(st["inp"])] + st["inp"]
    return "C02 " + " ".join(f"{x:x}" for x in nums)


OPNAMES = ["BR", "ADD", "LD", "ST", "JSR", "AND", "LDR", "STR", "RTI", "NOT", "LDI", "STI", "JMP", "STACK", "LEA", "TRAP"]


def classify(line):
    """(opcode, outcome kind, wrote memory?) from a result line — the non-triviality signature."""
    t = line.split()
    w = int(t[0], 16)
    kind = t[1]
    return (w >> 12, kind)


def correspondence(ctx, violations, known_hits):
    states = gen_states(ctx.tier, ctx.seed)
    chunk = 2048
    cases, meta = [], []
    for si, st in enumerate(states):
        for feat in (0, 1):
            for lo in range(0, 65536, chunk):
                cases.append(case_line(feat, st, lo, lo + chunk - 1))
                meta.append((si, feat, lo))
    # the TRAP routines depend on what R0 holds: every vector x00..xFF on states whose R0 runs through the byte classes (a zero
    # low byte under a non-zero high byte, NUL, ESC, DEL, x80, xFF, line ends) and, for the string traps, points at strings that
    # start with such words
    for si, st in enumerate(states[:3]):
        for r0 in (0x0000, 0x4100, 0x0041, 0x001B, 0x007F, 0x0080, 0x00FF, 0x000A, 0x000D, 0xFF00, 0x8000):
            for first in (0x0000, 0x4100, 0x0041, 0x1B41):
                st2 = dict(st)
                st2["regs"] = [r0] + st["regs"][1:]
                st2["ovs"] = st["ovs"] + [r0, first, (r0 + 1) % 65536, 0x0042, (r0 + 2) % 65536, 0x0000]
                cases.append(case_line(si % 2, st2, 0xF000, 0xF0FF))
                meta.append((si, si % 2, 0xF000))
    # ... and on what the console input holds next: every control byte a reader might be tempted to treat specially (CR, LF, NUL,
    # Ctrl-D, Ctrl-Z, ESC, DEL, BS, TAB), alone and in front of a letter - GETC / IN take exactly one byte, whatever it is
    for bi, b in enumerate((0x0D, 0x0A, 0x00, 0x04, 0x1A, 0x1B, 0x7F, 0x08, 0x09, 0xFF, 0x80, 0xC3)):
        for tail in ([], [0x41], [0x0A], [b]):
            st2 = dict(states[bi % len(states)])
            st2["inp"] = [b] + tail
            cases.append(case_line(bi % 2, st2, 0xF020, 0xF027))
            meta.append((bi % len(states), bi % 2, 0xF020))
    profiles = ["debug"] if ctx.tier == "quick" else ["debug", "release"]
    evaluations = 0
    sigs = set()
    hist = {}
    samples = []
    nviol = 0
    vkeys = set()
    for prof in profiles:
        ri, rm, crashes = ctx.run_both(cases, profile=prof, tag="c02")
        for c in crashes:
            idx = c.get("case_index")
            violations.append({"kind": "implementation-crashed", "profile": prof,
                               "case": cases[idx] if idx is not None else None, "detail": c["tail"]})
        for ci, (a, b) in enumerate(zip(ri, rm)):
            if a is None:
                continue
            if len(a) != len(b):
                violations.append({"kind": "result-shape", "profile": prof, "case": cases[ci],
                                   "impl_lines": len(a), "model_lines": len(b)})
                continue
            evaluations += len(a)
            for la, lb in zip(a, b):
                sig = classify(lb)
                if sig not in sigs:
                    sigs.add(sig)
                    if len(samples) < 6:
                        samples.append({"case": single(cases[ci], la), "result": lb})
                hist[OPNAMES[sig[0]]] = hist.get(OPNAMES[sig[0]], 0) + 1
                if la != lb:
                    nviol += 1
                    w = int(la.split()[0], 16)
                    key = (prof, w >> 12, (w >> 10) & 3 if (w >> 12) == 13 else (w & 0xFF if (w >> 12) == 15 else (w >> 11) & 1),
                           la.split()[1], lb.split()[1])
                    if key not in vkeys and len(vkeys) < 12:
                        vkeys.add(key)
                        one = single(cases[ci], la)
                        spec = ctx.run_model([one.replace("C02 ", "C02S ", 1)], tag="spec")[0]
                        violations.append({"kind": "model-vs-implementation", "profile": prof,
                                           "case": one, "implementation": la, "model": lb,
                                           "spec": spec[0] if spec else None,
                                           "format": "w kind code pc cc r0..r7 nout out.. inp_left nmem (addr val)..",
                                           "note": "MODEL = SPEC is proved (C02_exec), so this input is one where the implementation departs from the ISA semantics"})
    ctx.cleanup()
    return {
        "evaluations": evaluations,
        "distinct_nontrivial": len(sigs),
        "rule": "all 65,536 instruction words x S structured states (boundary register values, R7/PC/CC classes, "
                "address-hash memory with pointer cells, console input classes) x stack feature off/on; "
                "distinct = distinct (opcode, outcome kind) pairs observed; every execution compares registers, PC, CC, "
                "console output, consumed input and the full 65,536-word memory",
        "exhaustive": True,
        "exhaustive_over": "instruction words (all 65,536) per state; states are a structured sample",
        "states": len(states), "profiles": profiles,
        "opcode_histogram": hist,
        "samples": samples,
        "mismatches": nviol,
    }


def single(case, result_line):
    """Narrow a range case to the one word of `result_line`."""
    w = int(result_line.split()[0], 16)
    t = case.split()
    # fields: C02 feat seed pc cc r0..r7 orig wlo whi ...
    t[14] = f"{w:x}"; t[15] = f"{w:x}"
    return " ".join(t)


def replay(ctx, payload):
    case = payload["case"]
    ri, rm, crashes = ctx.run_both([case], tag="replay")
    spec = ctx.run_model([case.replace("C02 ", "C02S ", 1)], tag="spec")
    log(f"case           : {case}")
    log(f"implementation : {ri[0]}")
    log(f"model          : {rm[0]}")
    log(f"spec           : {spec[0]}")
    same = ri[0] == rm[0]
    log("agree" if same else "DISAGREE")
    return 0 if same else 1
