"""C14 — the debugger command language is total, unambiguous and transport-independent.

Correspondence, three parts:
 1. parser  : `debugger::verif_command::parse_line` (hook around Command::try_from) vs. Cmd.parse_line
              (extracted) on the same command lines — exhaustive over all argument strings up to a
              bounded length over a 16-letter alphabet in every argument position, random longer
              ones (multi-byte characters included), every name/alias/misspelling in three letter
              cases, arity errors;
 2. readers : `verif_command::read_all` (CommandReader = Argument + piped Stdin, Command::read_from)
              vs. Cmd.session on scripts split in every way between the argument and stdin, with
              `;` and newline separators;
 3. CLI     : the real `lace debug --minimal` binary on scripts delivered via --command, via stdin and
              split at every command boundary; stdout/stderr/exit code must not depend on the
              transport, and the final `registers` output must be what the model's reading of the
              script's `move rN <int>` lines predicts.
Independently of the model, no line may make the parser panic or leave the process; the one known
exception (first word `sudo`, KNOWN_FINDINGS F15) is reported as KNOWN-FINDING."""
import itertools, os, random, re, subprocess
from concurrent.futures import ThreadPoolExecutor
import core
from core import log, REPO, NPROC

ASSUMPTIONS = [
    "command lines arrive on stdin as BYTES: the reader's decoder is modelled in Utf8.v (strict reading of valid UTF-8, proved for all scalar values; U+FFFD for anything else, proved total) and tied to the code by the one-stream sessions (DBGS cases with invalid sequences, in-process and through the real binary) and by the byte scripts of this check's CLI stage",
    "the interactive terminal reader (reader/terminal.rs) is the subject of C20, not of this property",
    "the model is the debug profile (debug_assert!, overflow checks); the theorems show no such site is reachable, so the release profile behaves alike (thorough tier runs it too)",
    "the documented grammar is help.txt plus the alias tables of name.rs and the integer syntax documented on Integer::try_parse; `b+2`/`o-8` (radix letter, sign, digit not of the radix) is a malformed integer, not label+offset, as the parser's own tests state (CmdSpec.PrefixedLike)",
    "a label-shaped token whose leading radix letter + digits already exceed 2^31-1 (`x80000000g`) is rejected as too large an integer (CmdSpec.TooLargeLike): carved out of the label syntax, not repaired",
    "error::Value::MalformedLabel is unreachable (a label offset that is not an integer is always reported as MalformedInteger): error *kinds* are compared between model and implementation but the grammar only says 'rejected'",
]

ALPHABET = "+-#xob0179afg^r_"
def _known_sudo():
    """The entry of the committed KNOWN_FINDINGS.json that covers `sudo`, or None when the file does not list it
    (then the exit is an ordinary violation)."""
    for f in core.load_known():
        if f.get("status") == "known" and f.get("property") == "C14" and f.get("match", {}).get("first_word") == "sudo":
            return f["entry"]
    return None


KNOWN_SUDO = _known_sudo()
PACK = 400

# argument position kinds: template with one hole
POSITIONS = [
    ("value", "move r1 %s"),
    ("location", "print %s"),
    ("location-first", "m %s 7"),
    ("memory-location", "goto %s"),
    ("memory-location-break", "break add %s"),
    ("count", "step into %s"),
    ("memory-location-default", "a %s"),
]

CORPUS = [
    # F14 witnesses (fixed): the guard `> MAX / radix` let these through to an overflowing `+=`
    "print 2147483648", "print 2147483649", "move r1 2147483648", "goto #2147483649", "print -2147483648",
    "print ^2147483648", "print Foo+2147483648", "step into 2147483649", "print 2147483647", "print x7fffffff",
    "print x80000000", "print -x80000000", "print 99999999999999999999", "print b11111111111111111111111111111111",
    "print o17777777777", "print o20000000000", "p 0x7fffffff0", "goto x80000000g", "goto x8000000g",
    # F15 (known finding)
    "sudo",
    # documented forms
    "help", "h", "step", "s", "step into", "si 3", "step out", "so", "continue", "c", "registers", "r", "print r0",
    "p x3010", "print", "move r1 x10", "m Foo+4 -1", "goto ^", "g ^3", "g ^-x10", "break add x3010", "ba Hello+4",
    "break remove Foo", "br ^", "break list", "bl", "assembly", "a Foo", "eval add r0 r0 #1", "e  ld r1  Foo ",
    "reset", "z", "quit", "q", "exit", "x", "echo hi there",
    # grammar corners
    "p 0", "p -0", "p +0", "p 00", "p 007", "p 0x1", "p 00x1", "p 0#1", "p #1", "p #-1", "p -#1", "p -#-1", "p x-1",
    "p -x1", "p 0x-1", "p -0x1", "p b+2", "p b+1", "p o-8", "p x", "p b", "p o", "p 0b", "p #", "p -", "p +", "p ^-",
    "p ^x", "p ^0x7fff", "p ^0x8000", "p ^-x8000", "p ^-x8001", "p r1", "p R7", "p r8", "p r1a", "p r1+2", "p r1!",
    "p xag", "p x1g", "p x1+2", "p Foo+", "p Foo-", "p Foo!", "p Foo#4", "p Foo+x-1", "p Foo-0#10", "p _", "p _+1",
    "p 65535", "p 65536", "p -1", "goto r1", "goto R0x", "g 12a", "m r1 r2", "m r1 Foo", "m r1 ^", "m r1 65535",
    "m r1 65536", "m r1 -32768", "m r1 -32769", "si 0", "si -1", "si 65536", "si r1", "si x", "a r3",
    # arity
    "move", "move r1", "move r1 2 3", "print r1 r2", "goto", "goto 1 2", "step extra", "s o x", "c c", "q q", "reset now",
    "bl x", "b", "break", "b zz", "s zz", "b a", "b r", "b l 1", "help me please", "eval", "echo", "e", "echo  ",
    # names: case, look-alikes
    "HELP", "HeLp", "SUDO", "Sudo", "sudo rm", " sudo", "sudoo", "su", "^c", "^C", ":Q", ":wq", "--HELP", "br", "BR x3000",
    "next", "step-o", "con", "breakpoint", "b print", "s next", "s in", "s fin", "jsr x3000",
    # white space and non-ASCII
    "", "   ", "\t", "  help   me!  ", "\tq\t", "p\tr1", "p  r1 ", " q ", "　r ", "q\u0085", "p r1 ", "echo  x ",
    "print é", "p Fé", "p Foo+é", "p xé", "p ^é", "p r1é", "p ré", "p \U0001f34b", "p b\U0001f34b",
    "é", "\U0001f34b x", "hélp", "echo héllo \U0001f34b", "eval €", "m r1 １", "p ١",
]


def enc(s):
    return "%x" % len(s) + "".join(" %x" % ord(c) for c in s)


def lines_case(lines):
    return "C14 0 %x " % len(lines) + " ".join(enc(l) for l in lines)


def session_case(arg, stdin):
    return "C14 1 %x %s %s" % (0 if arg is None else 1, enc(arg or ""), enc(stdin))


def read_name_tables():
    """Every string literal of name.rs's tables, straight from the source under test."""
    src = open(os.path.join(REPO, "src/debugger/command/parse/name.rs")).read()
    head = src.split("impl Arguments")[0]
    return sorted(set(re.findall(r'"([^"\\]+)"', head)))


def case_variants(rnd, w):
    mixed = "".join(c.upper() if i % 2 else c.lower() for i, c in enumerate(w))
    rand = "".join(c.upper() if rnd.random() < 0.5 else c.lower() for c in w)
    return sorted({w, w.lower(), w.upper(), mixed, rand})


def gen_name_lines(rnd):
    names = read_name_tables()
    out = []
    tails = ["", " r1", " x3000", " r1 5", " Foo+1", " a b c", " 1 2 3"]
    for w in names:
        for v in case_variants(rnd, w):
            for t in tails:
                out.append(v + t)
    # two-word names: every parent x every word (all tables), in three cases
    for parent in ["step", "s", "break", "b", "S", "Break", "STEP", "B"]:
        for w in names:
            for v in case_variants(rnd, w)[:3]:
                out.append(parent + " " + v)
                out.append(parent + "  " + v + " x3000")
                out.append(parent + " " + v + " 1 2")
    return out, len(names)


RAND_CHARS = list(ALPHABET) + list("0123456789abcdefABCDEFXOBRxobrgGzZ_+-#^ !@.,;") + \
    ["é", "ß", " ", " ", "　", "€", "\U0001f34b", "\U0001f34e", "\t", "١", "０"]


def rand_token(rnd):
    n = rnd.randrange(5, 14)
    r = rnd.random()
    if r < 0.35:
        return "".join(rnd.choice(ALPHABET) for _ in range(n))
    if r < 0.6:
        # near-valid: sign? zero? prefix sign? digits, then maybe one mutation
        s = rnd.choice(["", "", "+", "-"]) + rnd.choice(["", "", "0"]) + rnd.choice(["", "#", "x", "X", "o", "b", "B", "O"]) \
            + rnd.choice(["", "", "-", "+"]) + "".join(rnd.choice("0123456789abcdefABCDEF01017") for _ in range(rnd.randrange(1, 12)))
    elif r < 0.8:
        s = rnd.choice(["Foo", "x", "b", "_", "r1", "R7x", "xab", "o7", "é"]) + rnd.choice(["", "+", "-", "+x", "-#", "+0x", "-0b", "+-"]) \
            + "".join(rnd.choice("0123456789abcdefg") for _ in range(rnd.randrange(0, 8)))
    else:
        s = "".join(rnd.choice(RAND_CHARS) for _ in range(n)).replace(";", "")
    if rnd.random() < 0.3 and s:
        i = rnd.randrange(len(s))
        s = s[:i] + rnd.choice(RAND_CHARS) + s[i + (rnd.random() < 0.5):]
    s = s.replace(";", "").replace("\n", "")
    return s


def gen_random_lines(rnd, n):
    out = []
    for i in range(n):
        kind, tmpl = POSITIONS[i % len(POSITIONS)]
        t = rand_token(rnd)
        if " " in t and rnd.random() < 0.7:
            t = t.replace(" ", "")
        out.append(tmpl % t)
    # boundary magnitudes in every radix and position
    for v in [0, 1, 32767, 32768, 65535, 65536, 2147483647, 2147483648, 2147483649, 4294967295, 4294967296, 10 ** 12]:
        for sp in ["%d", "#%d", "x%x", "0x%X", "o%o", "0b%s", "-%d", "#-%d", "-x%x", "x-%X", "+%d", "x+%x", "-o%o", "b-%s"]:
            tok = sp % (bin(v)[2:] if sp.endswith("%s") else v)
            for _, tmpl in POSITIONS:
                out.append(tmpl % tok)
            out.append("p ^" + tok)
            out.append("p Foo+" + tok.lstrip("+-"))
            out.append("p Foo-" + tok.lstrip("+-"))
    return out


# ---------------------------------------------------------------- verdict helpers

CLASS = {"0": "command", "1": "rejected", "2": "PANIC", "3": "EXIT", "4": "blank", "5": "end", "6": "OUT-OF-FUEL", "7": "bad-case"}
KINDS = ["help", "step", "step into", "step out", "continue", "registers", "print", "move", "goto", "assembly", "eval",
         "echo", "reset", "quit", "exit", "break list", "break add", "break remove"]
VALUE_ERRS = ["mismatched-type", "malformed-value", "malformed-integer", "malformed-label", "malformed-register", "too-large"]
LOCS = ["reg", "pc-offset", "address", "label"]


def describe(v):
    t = v.split()
    if not t:
        return ("none",)
    c = CLASS.get(t[0], t[0])
    if t[0] == "0":
        k = int(t[1], 16)
        d = [c, KINDS[k] if k < len(KINDS) else str(k)]
        if k in (6, 7, 8, 9, 16, 17) and len(t) > 2:
            d.append(LOCS[int(t[2], 16)])
        return tuple(d)
    if t[0] == "1":
        e = int(t[1], 16)
        if e == 0:
            return (c, "not-a-command", "suggestion" if t[2] != "0" else "no-suggestion")
        if e == 1:
            return (c, "missing-subcommand")
        if e == 2:
            return (c, "invalid-subcommand", "suggestion" if t[3] != "0" else "no-suggestion")
        a = int(t[3], 16)
        if a == 3:
            return (c, "invalid-value", VALUE_ERRS[int(t[4], 16)])
        return (c, ["missing-argument-list", "missing-argument", "too-many-arguments"][a])
    return (c,)


def first_word(line):
    w = line.strip().split(" ")
    return w[0] if w else ""


# ---------------------------------------------------------------- part 1: parser

def check_lines(ctx, lines, tags, profile, stats, violations, known_hits, vkeys, tag):
    cases = [lines_case(lines[i:i + PACK]) for i in range(0, len(lines), PACK)]
    ri, rm, crashes = ctx.run_both(cases, profile=profile, tag=tag)
    for c in crashes:
        idx = c.get("case_index")
        violations.append({"kind": "implementation-crashed", "profile": profile,
                           "lines": lines[idx * PACK:(idx + 1) * PACK][:50] if idx is not None else None, "detail": c["tail"]})
    for ci in range(len(cases)):
        a, b = ri[ci], rm[ci]
        if a is None:
            continue
        chunk = lines[ci * PACK:(ci + 1) * PACK]
        for k, line in enumerate(chunk):
            la = a[k] if k < len(a) else ""
            lb = b[k] if k < len(b) else ""
            stats["evaluations"] += 1
            tg = tags[ci * PACK + k]
            d = describe(lb)
            key = " ".join(d)
            stats["hist"][key] = stats["hist"].get(key, 0) + 1
            sig = (tg,) + d
            if sig not in stats["sigs"]:
                stats["sigs"].add(sig)
                if len(stats["samples"]) < 12:
                    stats["samples"].append({"tag": tg, "line": line, "model": lb, "implementation": la})
            ka = la.split()[:1]
            if ka in (["2"], ["3"]):
                # the property itself: no line may panic or leave the process
                if KNOWN_SUDO and ka == ["3"] and la == "3 0" and lb == "3 0" and first_word(line) == "sudo":
                    if line == "sudo" and KNOWN_SUDO not in known_hits:
                        known_hits.append(KNOWN_SUDO)
                    stats["known_sudo"] += 1
                    continue
                vk = (profile, "panic-or-exit", la, tg)
                if vk not in vkeys and len(vkeys) < 12:
                    vkeys.add(vk)
                    violations.append({"kind": "line-makes-the-parser-panic" if ka == ["2"] else "line-exits-the-process",
                                       "profile": profile, "tag": tg, "line": line, "case": lines_case([line]),
                                       "implementation": la, "model": lb})
                stats["mismatches"] += 1
                continue
            if la != lb:
                stats["mismatches"] += 1
                vk = (profile, "differs", describe(la), d, tg)
                if vk not in vkeys and len(vkeys) < 12:
                    vkeys.add(vk)
                    violations.append({"kind": "model-vs-implementation", "profile": profile, "tag": tg, "line": line,
                                       "case": lines_case([line]), "implementation": la, "model": lb,
                                       "implementation_reads": " ".join(describe(la)), "model_reads": key,
                                       "note": "the model's verdict is proved to be the documented grammar's (C14 theorems)"})


# ---------------------------------------------------------------- part 2: readers (in process)

SCRIPT_CMDS = ["p r1", "move r%d %s", "bogus", "g x3000", "echo a b", "", " ", "b a Foo+1", "bl", "h", "print 2147483648",
               "s i 2", "m r1", "q", "x", "registers", "p é", "\tp r2\t", "eval add r1 r1 #1", "zz \U0001f34b", "a ^1"]


def rand_script_cmds(rnd, n):
    out = []
    for _ in range(n):
        c = rnd.choice(SCRIPT_CMDS)
        if "%d" in c:
            c = c % (rnd.randrange(8), rnd.choice(["x10", "#-1", "0b101", "65535", "-x7fff", "o17", "+9", "x-8000", "99999", "b+2"]))
        out.append(c)
    return out


def join(cmds, seps):
    s = ""
    for i, c in enumerate(cmds):
        s += c
        if i < len(cmds) - 1 or seps[i] is not None:
            s += seps[i] or ";"
    return s


def session_variants(rnd, cmds, trailing=True):
    """(arg, stdin) pairs that must all mean the same; the first is the reference."""
    n = len(cmds)
    semi = [";"] * n
    nl = ["\n"] * n
    mix = [rnd.choice(";\n") for _ in range(n)]
    out = []
    for seps in (semi, nl, mix):
        whole = join(cmds, seps[:-1] + [None])
        out.append((whole, ""))
        out.append((None, whole))
        if trailing:
            out.append((whole + seps[-1], ""))        # trailing separator
            out.append((None, whole + seps[-1]))
        for k in range(1, n):
            a = join(cmds[:k], seps[:k - 1] + [None])
            b = join(cmds[k:], seps[k:-1] + [None])
            out.append((a, b))                          # the boundary's separator is dropped ...
            out.append((a + seps[k - 1], b))            # ... or stays with the argument
    return out


def check_sessions(ctx, rnd, nscripts, profile, stats, violations, vkeys):
    cases, owner = [], []
    scripts = [["sudo", "q"], ["p r1", "sudo", "p r2"], ["q"], [""], ["", ""], [" ", "q", " "], ["p r1"],
               ["print 2147483648", "p r1"]]
    scripts += [rand_script_cmds(rnd, rnd.randrange(1, 7)) for _ in range(nscripts)]
    for si, cmds in enumerate(scripts):
        for (a, b) in session_variants(rnd, cmds):
            cases.append(session_case(a, b)); owner.append(si)
    # raw texts (not built from command lists): separators at the ends, runs of separators
    raws = [";", "\n", ";;", ";\n;", "q;", ";q", "q\n", "\nq", "p r1;;p r2", " ; ;", "é;\U0001f34b\n€", "",
            # carriage returns: part of a CRLF line end, at the very end, alone, inside a line
            "p r1\r\np r2\r\n", "p r1\r", "\r", "p r1\r;p r2", "\r\n", "p r1\rp r2", "q\r", "echo a\rb\r\nq", "\r\r", ";\r;"]
    for r in raws:
        cases.append(session_case(r, "")); owner.append(len(scripts) + raws.index(r))
        cases.append(session_case(None, r)); owner.append(len(scripts) + raws.index(r))
    ri, rm, crashes = ctx.run_both(cases, profile=profile, tag="c14s")
    for c in crashes:
        idx = c.get("case_index")
        violations.append({"kind": "implementation-crashed", "profile": profile,
                           "case": cases[idx] if idx is not None else None, "detail": c["tail"]})
    ref = {}
    for ci, case in enumerate(cases):
        a, b = ri[ci], rm[ci]
        if a is None:
            continue
        stats["session_evaluations"] += 1
        stats["evaluations"] += 1
        d = ("session", len(b), b[-2].split()[0] if len(b) > 1 else "-")
        stats["sigs"].add(d)
        bad = None
        if a != b:
            bad = "model-vs-implementation"
        elif any(l.split()[:1] == ["2"] for l in a):
            bad = "line-makes-the-parser-panic"
        elif owner[ci] in ref and ref[owner[ci]][1] != a:
            bad = "meaning-depends-on-transport"
        ref.setdefault(owner[ci], (case, a))
        if bad:
            stats["mismatches"] += 1
            vk = (profile, bad, owner[ci])
            if vk not in vkeys and len(vkeys) < 16:
                vkeys.add(vk)
                violations.append({"kind": bad, "profile": profile, "case": case, "session": decode_session(case),
                                   "implementation": a, "model": b,
                                   "reference_case": decode_session(ref[owner[ci]][0]), "reference": ref[owner[ci]][1]})


def decode_session(case):
    t = [int(x, 16) for x in case.split()[1:]]
    has = t[1]
    n = t[2]
    a = "".join(chr(c) for c in t[3:3 + n])
    m = t[3 + n]
    b = "".join(chr(c) for c in t[4 + n:4 + n + m])
    return {"argument": a if has else None, "stdin": b}


# ---------------------------------------------------------------- part 3: CLI

PROGRAM = ".orig x3000\nstart add r0 r0 #1\nlea r1 data\nhalt\ndata .fill x1234\nFoo .fill #5\nb .fill #7\n.end\n"
INT_SPELLINGS = [("x10", 16), ("#-1", 65535), ("0b101", 5), ("65535", 65535), ("-x7fff", 0x8001), ("o17", 15), ("+9", 9),
                 ("x-8000", 0x8000), ("0", 0), ("-0", 0), ("007", 7), ("0X1f", 31), ("#+12", 12), ("B11", 3), ("-#2", 65534)]
BAD_VALUES = ["99999", "b+2", "-32769", "65536", "2147483648", "r2", "Foo", "^", "0#1", "--1", "x", "12a", ""]


def cli_script(rnd, predictable):
    cmds = []
    for _ in range(rnd.randrange(2, 8)):
        r = rnd.random()
        if r < 0.35:
            sp, _ = rnd.choice(INT_SPELLINGS)
            cmds.append(rnd.choice(["move r%d %s", "m R%d %s", "MOVE  r%d   %s"]) % (rnd.randrange(7), sp))
        elif r < 0.5:
            cmds.append("move r%d %s" % (rnd.randrange(7), rnd.choice(BAD_VALUES)))
        elif r < 0.6:
            cmds.append(rnd.choice(["print r%d" % rnd.randrange(8), "p Foo", "p ^1", "p x3003", "p b", "p b+1", "print"]))
        elif r < 0.7:
            cmds.append(rnd.choice(["bogus", "mov r1 1", "b", "b zz", "move", "move r1 1 2", "p r1 r2", "é \U0001f34b", "print é"]))
        elif r < 0.8:
            cmds.append(rnd.choice(["echo a  b", "echo é\U0001f34b", "b a Foo", "b a x3001", "bl", "b r Foo", "a", "a Foo", ""]))
        elif r < 0.9:
            cmds.append(rnd.choice(["registers", "r", "reset", "z", "g x3001", "g ^1", "g Foo-1", "g xFFFF"]))
        elif predictable:
            cmds.append(rnd.choice(["  ", "p r1", "h é"]))
        else:
            cmds.append(rnd.choice(["step", "s i 2", "eval add r1 r1 #1", "eval ld r2 Foo", "s", "help", "step into 0"]))
    cmds += ["registers", "exit"]
    return cmds


def run_cli(exe, asm, arg, stdin):
    cmd = [exe, "debug", asm, "--minimal"]
    if arg is not None:
        cmd += ["--command", arg]
    try:
        p = subprocess.run(cmd, input=stdin.encode(), stdout=subprocess.PIPE, stderr=subprocess.PIPE, timeout=20,
                           env=dict(os.environ, NO_COLOR="1", RUST_BACKTRACE="0"))
        return (p.returncode, p.stdout.decode(errors="replace"), p.stderr.decode(errors="replace"))
    except subprocess.TimeoutExpired:
        return ("timeout", "", "")


def final_registers(out):
    regs = re.findall(r"(?m)^R([0-7]) x([0-9a-f]{4})$", out)
    if len(regs) < 8:
        return None
    return [int(v, 16) for _, v in regs[-8:]]


def predict_registers(cmds, verdicts):
    """Registers after a script of non-executing commands, from the model's verdicts."""
    init = [0, 0, 0, 0, 0, 0, 0, 0xFDFF]
    regs = list(init)
    for c, v in zip(cmds, verdicts):
        t = v.split()
        if t[:2] == ["0", "7"] and t[2] == "0":           # move to a register
            regs[int(t[3], 16)] = int(t[4], 16)
        elif t[:2] == ["0", "c"]:                          # reset
            regs = list(init)
    return regs


def check_cli(ctx, rnd, nscripts, stats, violations, vkeys):
    exe = ctx.cli()
    asm = os.path.join(ctx.work, "c14.asm")
    open(asm, "w").write(PROGRAM)
    scripts = [(["move r1 x10", "bogus", "print 2147483648", "move r2 #-1", "registers", "exit"], True),
               (["move r1 1", "sudo", "move r1 2", "registers", "exit"], False),
               (["move r3 b+1", "move r4 b+2", "print", "registers", "exit"], True)]
    scripts += [(cli_script(rnd, i % 3 != 2), i % 3 != 2) for i in range(nscripts)]
    # the model's reading of every command line (for the register prediction)
    allcmds = sorted({c for cmds, _ in scripts for c in cmds})
    rmod = ctx.run_model([lines_case(allcmds[i:i + PACK]) for i in range(0, len(allcmds), PACK)], tag="c14cli")
    verdict = {}
    for i, chunk in enumerate(rmod):
        for k, v in enumerate(chunk):
            verdict[allcmds[i * PACK + k]] = v
    jobs = []
    for si, (cmds, pred) in enumerate(scripts):
        for (a, b) in session_variants(rnd, cmds, trailing=False):
            jobs.append((si, a, b))
    with ThreadPoolExecutor(max_workers=NPROC) as ex:
        results = list(ex.map(lambda j: run_cli(exe, asm, j[1], j[2]), jobs))
    ref = {}
    for (si, a, b), res in zip(jobs, results):
        stats["cli_runs"] += 1
        stats["evaluations"] += 1
        cmds, pred = scripts[si]
        bad, detail = None, None
        if res[0] == "timeout" or (isinstance(res[0], int) and res[0] not in (0,)):
            bad, detail = "debugger-session-fails", f"exit status {res[0]}"
        elif si in ref and ref[si][1] != res:
            bad = "meaning-depends-on-transport"
        elif pred:
            got, want = final_registers(res[1] + "\n" + res[2]), predict_registers(cmds, [verdict[c] for c in cmds])
            if got != want:
                bad, detail = "effect-differs-from-parsed-command", {"registers": got, "model_predicts": want}
        ref.setdefault(si, ((a, b), res))
        stats["sigs"].add(("cli", len(cmds), a is None, b == "", res[0]))
        if bad:
            stats["mismatches"] += 1
            vk = ("cli", bad, si)
            if vk not in vkeys and len(vkeys) < 20:
                vkeys.add(vk)
                violations.append({"kind": bad, "level": "cli", "commands": cmds, "argument": a, "stdin": b, "detail": detail,
                                   "result": {"status": res[0], "stdout": res[1][-1500:], "stderr": res[2][-1500:]},
                                   "reference_transport": {"argument": ref[si][0][0], "stdin": ref[si][0][1]},
                                   "reference_result": {"status": ref[si][1][0], "stdout": ref[si][1][1][-1500:],
                                                        "stderr": ref[si][1][2][-1500:]},
                                   "program": PROGRAM})
    stats["cli_scripts"] = len(scripts)
    # scripts whose bytes are NOT all UTF-8, on stdin: a line with a stray / truncated / overlong / surrogate sequence in it is
    # rejected like any other line outside the grammar and has no effect; the lines around it mean what they always mean; the
    # separator behind a truncated character still separates; nothing makes the reader panic
    bad_lines = [b"\xff", b"move r1 \xc3", b"move r2 x1\xe9", b"m\xf0\x9f\x8dve r3 1", b"\x80\x80\x80", b"move r4 \xed\xa0\x80", b"move r5 \xc0\x80",
                 b"move r6 7\xe2\x86", b"print r\xf8\x88\x80\x80\x80", b"\xc3", b"move r1\xa0 5"]
    bjobs = []
    for k in range(24):
        good = [rnd.choice(["move r%d %s" % (rnd.randrange(7), rnd.choice(["1", "x10", "#-1", "0x7fff", "b101"])), "print r1", "bogus", "p ^1"]) for _ in range(rnd.randrange(2, 6))]
        lines, shadow = [], []
        for g in good:
            if rnd.random() < 0.6:
                lines.append(rnd.choice(bad_lines)); shadow.append("bogus")
            lines.append(g.encode()); shadow.append(g)
        if rnd.random() < 0.5:
            lines.append(rnd.choice(bad_lines)); shadow.append("bogus")
        lines += [b"registers", b"exit"]; shadow += ["registers", "exit"]
        sep = [rnd.choice([b"\n", b";", b"\r\n", b" ;"]) for _ in lines]
        data = b"".join(l + s_ for l, s_ in zip(lines, sep))
        bjobs.append((data, shadow))
    extra = sorted({c for _, sh in bjobs for c in sh} - set(verdict))
    if extra:
        rm2 = ctx.run_model([lines_case(extra[i:i + PACK]) for i in range(0, len(extra), PACK)], tag="c14clib")
        for i, chunk in enumerate(rm2):
            for k2, v in enumerate(chunk):
                verdict[extra[i * PACK + k2]] = v

    def run_bytes(data):
        try:
            p = subprocess.run([exe, "debug", asm, "--minimal"], input=data, stdout=subprocess.PIPE, stderr=subprocess.PIPE, timeout=20,
                               env=dict(os.environ, NO_COLOR="1", RUST_BACKTRACE="0"))
            return (p.returncode, p.stdout.decode(errors="replace"), p.stderr.decode(errors="replace"))
        except subprocess.TimeoutExpired:
            return ("timeout", "", "")
    with ThreadPoolExecutor(max_workers=NPROC) as ex:
        bres = list(ex.map(lambda j: run_bytes(j[0]), bjobs))
    nb = 0
    for (data, shadow), res in zip(bjobs, bres):
        stats["cli_runs"] += 1
        stats["evaluations"] += 1
        got = final_registers(res[1] + "\n" + res[2]) if res[0] == 0 else None
        want = predict_registers(shadow, [verdict[c] for c in shadow])
        if res[0] != 0 or got != want:
            stats["mismatches"] += 1
            nb += 1
            if nb <= 3:
                violations.append({"kind": "bytes-that-are-not-utf8-on-stdin", "level": "cli", "stdin_bytes": data.hex(),
                                   "stdin_shown": data.decode("utf-8", "backslashreplace"), "lines_as_the_grammar_sees_them": shadow,
                                   "result": {"status": res[0], "stdout": res[1][-800:], "stderr": res[2][-800:]},
                                   "registers": got, "model_predicts": want, "program": PROGRAM,
                                   "note": "a line holding bytes that are not UTF-8 is a line outside the grammar: rejected, no effect, no panic; the other lines keep their meaning"})
    stats["cli_byte_scripts"] = len(bjobs)


UTF8_ALPHABET = [0x41, 0x7F, 0x80, 0x8F, 0x90, 0x9F, 0xA0, 0xBF, 0xC0, 0xC1, 0xC2, 0xDF, 0xE0, 0xE1, 0xEC, 0xED, 0xEE, 0xEF,
                 0xF0, 0xF1, 0xF3, 0xF4, 0xF5, 0xF8, 0xFF, 0x3B, 0x0A]
UTF8_PROGRAM = "halt\n"


def check_byte_streams(ctx, rnd, maxlen, nrandom, stats, violations):
    """The reader's decoder on BYTES (Stdin::read, read_char_from_bytes) vs Utf8.decode_lossy, through one-stream debugger
    sessions (DBGS, DbgStream.v): the stream is `echo ` + bytes + newline + `exit` - the echo shows what the reader made of
    the bytes, the `exit` behind it that the line end was not swallowed.  EVERY byte string up to maxlen over an alphabet with
    a representative of every class the decoder and `from_utf8` distinguish (ASCII, the continuation ranges 80-8F / 90-9F /
    A0-BF, overlong leads C0 C1, E0 / ED / F0 / F4 with their restricted second bytes, F5 F8 FF, and the separators ; and
    newline), plus random longer strings."""
    src = [ord(c) for c in UTF8_PROGRAM]
    streams = []
    for n in range(0, maxlen + 1):
        for tup in itertools.product(UTF8_ALPHABET, repeat=n):
            streams.append(bytes(tup))
    # well-formed characters at every boundary of the encoding (first / last scalar of each length, around the surrogate gap),
    # alone, doubled, and with an ASCII letter or an ill-formed byte on either side
    for c in (0x80, 0x7FF, 0x800, 0xFFF, 0x1000, 0xD7FF, 0xE000, 0xFFFD, 0xFFFF, 0x10000, 0x1F34B, 0x3FFFF, 0x40000, 0xFFFFF, 0x100000, 0x10FFFF, 0xE9, 0x2192):
        e = chr(c).encode("utf-8")
        for b in (e, e + e, b"a" + e + b"b", e + b"\xff", b"\x80" + e, e[:-1] + b"a" + e, e + b";" + e):
            streams.append(b)
    for _ in range(nrandom):
        streams.append(bytes(rnd.choice(UTF8_ALPHABET + [rnd.randrange(0x20, 256)]) for _ in range(rnd.randrange(4, 12))))      # (x01-x03 are the harness's own markers in the captured stderr)
    cases = []
    for b in streams:
        stream = list(b"echo " + b + b"\nexit\n")
        nums = [0, 3000, len(src)] + src + [0, 0, len(stream)] + stream
        cases.append("DBGS " + " ".join(f"{v:x}" for v in nums))
    ri, rm, crashes = ctx.run_both(cases, profile="debug", tag="c14utf8")
    for c in crashes:
        idx = c.get("case_index")
        violations.append({"kind": "implementation-crashed", "level": "byte-stream", "case": cases[idx] if idx is not None else None,
                           "stream_bytes": streams[idx].hex() if idx is not None else None, "detail": c["tail"]})
    bad = 0
    for b, c, a, m in zip(streams, cases, ri, rm):
        if a is None:
            continue
        stats["evaluations"] += 1
        if a != m:
            bad += 1
            stats["mismatches"] += 1
            if bad <= 4:
                violations.append({"kind": "byte-stream-reader-vs-model", "level": "byte-stream", "case": c, "stream_bytes": b.hex(),
                                   "stream_shown": (b"echo " + b).decode("utf-8", "backslashreplace"),
                                   "implementation": a, "model": m,
                                   "note": "the line the debugger's stdin reader hands to the parser differs from Utf8.decode_lossy of its bytes "
                                           "(C14_utf8_reader_total / C14_utf8_keeps_separator are about that model)"})
    stats["byte_streams"] = len(streams)


# ---------------------------------------------------------------- entry points

def correspondence(ctx, violations, known_hits):
    rnd = random.Random(ctx.seed)
    quick = ctx.tier == "quick"
    maxlen = 4 if quick else 5
    stats = {"evaluations": 0, "mismatches": 0, "hist": {}, "sigs": set(), "samples": [], "known_sudo": 0,
             "session_evaluations": 0, "cli_runs": 0}
    vkeys = set()
    profiles = ("debug",) if quick else ("debug", "release")

    # fixed corpus, names, random: small, first
    lines = list(CORPUS)
    tags = ["corpus"] * len(lines)
    nl, nnames = gen_name_lines(rnd)
    lines += nl; tags += ["names"] * len(nl)
    rl = gen_random_lines(rnd, 20000 if quick else 400000)
    lines += rl; tags += ["random"] * len(rl)
    for prof in profiles:
        check_lines(ctx, lines, tags, prof, stats, violations, known_hits, vkeys, "c14a")
    n_fixed = len(lines)

    # exhaustive: every string over the alphabet up to maxlen, in every argument position
    n_strings = 0
    for kind, tmpl in POSITIONS:
        lines, n_strings = [], 0
        for n in range(0, maxlen + 1):
            for tup in itertools.product(ALPHABET, repeat=n):
                lines.append(tmpl % "".join(tup)); n_strings += 1
        check_lines(ctx, lines, [kind] * len(lines), "debug", stats, violations, known_hits, vkeys, "c14x")
    n_parser = stats["evaluations"]

    for prof in profiles:
        check_sessions(ctx, rnd, 150 if quick else 2000, prof, stats, violations, vkeys)
    check_cli(ctx, rnd, 150 if quick else 1500, stats, violations, vkeys)
    check_byte_streams(ctx, rnd, 3 if quick else 4, 2000 if quick else 50000, stats, violations)
    ctx.cleanup()
    top = dict(sorted(stats["hist"].items(), key=lambda kv: -kv[1]))
    return {
        "evaluations": stats["evaluations"], "distinct_nontrivial": len(stats["sigs"]),
        "rule": f"parser: fixed corpus (F14 witnesses first) + every name/alias/misspelling literal of name.rs ({nnames}) in "
                f"lower/upper/alternating/random case x 7 argument tails and as sub-command of step/s/break/b + seeded random "
                f"tokens (5-13 chars, 2-/3-/4-byte characters, Unicode white space) and boundary magnitudes in every radix "
                f"({n_fixed} lines); EXHAUSTIVE: all {n_strings} strings of length <= {maxlen} over the alphabet {ALPHABET!r} in "
                f"each of {len(POSITIONS)} argument positions {[k for k, _ in POSITIONS]}; readers: scripts x (argument | "
                f"stdin | split at every command boundary, separator kept or dropped | trailing separator) x (`;` | newline | "
                f"mixed) in process; CLI: the same variants on the lace binary, final registers predicted from the model's "
                f"verdicts, and byte scripts with ill-formed UTF-8; BYTE STREAMS: every byte string of length <= {3 if quick else 4} over {len(UTF8_ALPHABET)} representative bytes "
                f"(+ random longer ones) as the argument of `echo` on the one-stream debugger session, reader vs Utf8.decode_lossy ({stats.get('byte_streams', 0)} streams); distinct = distinct (generator tag, verdict class, command kind / error kind, location kind)",
        "exhaustive": True,
        "exhaustive_over": f"argument strings of length <= {maxlen} over {len(ALPHABET)} letters ({n_strings} strings) x "
                           f"{len(POSITIONS)} argument positions; every split point of every generated script",
        "parser_evaluations": n_parser, "session_evaluations": stats["session_evaluations"], "cli_runs": stats["cli_runs"],
        "cli_scripts": stats.get("cli_scripts", 0), "verdict_histogram": top, "samples": stats["samples"],
        "mismatches": stats["mismatches"], "known_finding_hits": stats["known_sudo"], "profiles": list(profiles),
    }


def replay(ctx, payload):
    if payload.get("kind") == "byte-stream-reader-vs-model":
        ri, rm, _ = ctx.run_both([payload["case"]], profile="debug", tag="replay")
        log(f"stream         : {payload['stream_shown']!r}")
        log(f"implementation : {ri[0]}")
        log(f"model          : {rm[0]}")
        log("agree" if ri[0] == rm[0] else "DISAGREE")
        return 0 if ri[0] == rm[0] else 1
    if payload.get("kind") == "bytes-that-are-not-utf8-on-stdin":
        exe = ctx.cli()
        asm = os.path.join(ctx.work, "c14.asm")
        os.makedirs(ctx.work, exist_ok=True)
        open(asm, "w").write(PROGRAM)
        p = subprocess.run([exe, "debug", asm, "--minimal"], input=bytes.fromhex(payload["stdin_bytes"]), stdout=subprocess.PIPE, stderr=subprocess.PIPE,
                           timeout=20, env=dict(os.environ, NO_COLOR="1", RUST_BACKTRACE="0"))
        got = final_registers(p.stdout.decode(errors="replace") + "\n" + p.stderr.decode(errors="replace")) if p.returncode == 0 else None
        log(f"stdin     : {payload['stdin_shown']!r}")
        log(f"exit      : {p.returncode}   registers: {got}")
        log(f"predicted : exit 0   registers: {payload['model_predicts']}")
        log(p.stderr.decode(errors='replace')[-400:])
        same = p.returncode == 0 and got == payload["model_predicts"]
        log("agree" if same else "DISAGREE")
        return 0 if same else 1
    if payload.get("level") == "cli":
        exe = ctx.cli()
        asm = os.path.join(ctx.work, "c14.asm")
        open(asm, "w").write(payload["program"])
        r1 = run_cli(exe, asm, payload["argument"], payload["stdin"])
        rt = payload["reference_transport"]
        r0 = run_cli(exe, asm, rt["argument"], rt["stdin"])
        log(f"commands  : {payload['commands']}")
        log(f"transport : argument={payload['argument']!r} stdin={payload['stdin']!r}\n  -> {r1}")
        log(f"reference : argument={rt['argument']!r} stdin={rt['stdin']!r}\n  -> {r0}")
        agree = r0 == r1 and r1[0] == 0
        if payload["kind"] == "effect-differs-from-parsed-command":
            got = final_registers(r1[1] + "\n" + r1[2])
            log(f"registers : {got}   model predicts {payload['detail']['model_predicts']}")
            agree = agree and got == payload["detail"]["model_predicts"]
        log("agree" if agree else "DISAGREE")
        return 0 if agree else 1
    case = payload["case"]
    ri, rm, _ = ctx.run_both([case], profile=payload.get("profile", "debug"), tag="replay")
    log(f"input          : {payload.get('line', payload.get('session'))!r}")
    log(f"implementation : {ri[0]}")
    log(f"model          : {rm[0]}")
    ok = ri[0] == rm[0] and not any(l.split()[:1] in (["2"], ["3"]) for l in (ri[0] or []))
    if "reference_case" in payload:
        rc = payload["reference_case"]
        r2, _, _ = ctx.run_both([session_case(rc["argument"], rc["stdin"])], profile=payload.get("profile", "debug"), tag="replay2")
        log(f"reference      : {rc!r} -> {r2[0]}")
        ok = ok and r2[0] == ri[0]
    log("agree" if ok else "DISAGREE")
    return 0 if ok else 1
