"""C16 — a debugger session always makes progress."""
import itertools, random
import dbggen, dbgcommon

# observations the property does not speak about: a difference in these alone breaks the correspondence
# but is not an input on which the property fails (reported with no-failing-input-found)
AUX = ('debugger output differs',)

ASSUMPTIONS = [
    "work is measured as iterations of RunEnvironment::run (tick hook); the implementation's count is compared with the proved BOUND (executed + commands + 1), not with the model's exact count, so a harmless restructuring of the loop cannot raise an alarm",
    "a hard iteration cap turns a livelock into a reported case instead of a hung check",
]


def jump_prog(dest):
    return f"        ld r2 dest\n        add r1 r1 #1\n        jmp r2\ndest    .fill {dest}\n"


PARKED = "        add r0 r0 #1\n        halt\n        add r0 r0 #1\n"


def gen(tier, seed):
    rnd = random.Random(seed)
    specs = []
    resumes = [("continue",), ("step",), ("stepinto", 1), ("stepinto", 5), ("stepinto", 100), ("stepout",)]
    dests = ["xFFFF", "x2000", "x0000", "xFE00", "xFDFF", "xFFFE", "x2FFF", "xFE01"]
    L = 2 if tier == "quick" else 3
    for dest in dests:
        src = jump_prog(dest)
        for feat in (0, 1):
            for combo in itertools.product(resumes, repeat=L):
                # first resume leaves the program; the others are issued AT the out-of-bounds / 0xFFFF PC
                specs.append(("jump:" + dest, feat, src, [], list(combo)))
            for k in range(1, 5):
                specs.append(("jump-then-" + str(k), feat, src, [], [("stepinto", k)] + [rnd.choice(resumes) for _ in range(3)]))
    for feat in (0, 1):
        for combo in itertools.product(resumes, repeat=L):
            specs.append(("parked-on-halt", feat, PARKED, [], [("continue",)] + list(combo)))
        for combo in itertools.product(resumes + [("goto", ("addr", 0x3002)), ("goto", ("addr", 0xFDFF))], repeat=2):
            specs.append(("parked-goto", feat, PARKED, [], [("continue",)] + list(combo)))
    n = 1000 if tier == "quick" else 100000
    for i in range(n):
        p = dbggen.PROGRAMS[i % len(dbggen.PROGRAMS)]
        src, feat = p(rnd)
        cmds = dbggen.gen_script(rnd, dbggen.READONLY + dbggen.MUTATING, dbggen.origin_of(src), 12, maxlen=25, end="eof")
        specs.append(("random:" + p.__name__, rnd.choice([feat, 1]), src, [], cmds))
    rnd2 = random.Random(seed + 101)
    for i in range(n // 8):
        p = dbggen.PROGRAMS_LATER[i % len(dbggen.PROGRAMS_LATER)]
        src, feat = p(rnd2)
        cmds = dbggen.gen_script(rnd2, dbggen.READONLY + dbggen.MUTATING, dbggen.origin_of(src), 12, maxlen=25, end="eof")
        specs.append(("random:" + p.__name__, rnd2.choice([feat, 1]), src, [], cmds))
    # a HALT reached INSIDE a subroutine (an error exit), with every resuming command issued at every point before it
    for s7 in range(12):
        src, feat0 = dbggen.p_sub_halts(random.Random(s7))
        for feat in sorted({feat0, 1}):
            for k in range(0, 7):
                for x in resumes:
                    for y in (("step",), ("continue",)):
                        specs.append(("halt-in-subroutine", feat, src, [], ([("stepinto", k)] if k else []) + [x, y]))
    # a HALT written with other reserved bits (TRAP words xF125, xF825, xFF25 - the machine looks at the low byte only): every
    # part of the debugger must agree that it is a HALT, or the run loop waits for a pause that never comes
    for word in ("xF125", "xF225", "xF425", "xF825", "xFF25"):
        plain = f"        add r0 r0 #1\n        .fill {word}\n        add r0 r0 #1\n"
        insub = f"main    jsr fn\n        halt\nfn      add r0 r0 #1\n        .fill {word}\n        ret\n"
        incall = f"main    call fn\n        halt\nfn      add r0 r0 #1\n        .fill {word}\n        rets\n"
        for src, feats in ((plain, (0, 1)), (insub, (0, 1)), (incall, (1,))):
            for feat in feats:
                for k in range(0, 4):
                    for x in resumes:
                        for y in (("step",), ("continue",), ("stepout",)):
                            specs.append(("halt-with-reserved-bits", feat, src, [], ([("stepinto", k)] if k else []) + [x, y]))
    return rnd, specs


def correspondence(ctx, violations, known_hits):
    rnd, specs = gen(ctx.tier, ctx.seed)
    cases, tags = dbgcommon.make_cases(rnd, specs, fuel=6000)
    profiles = ("debug",)
    stats = {"max_slack": 0, "bound_checked": 0, "budget_hits": 0}

    def bound(ci, a, b):
        f, _ = dbgcommon.impl_fields(a)
        if not f:
            return None
        if f["kind"] == 4:
            stats["budget_hits"] += 1
            mf, _ = dbgcommon.impl_fields(b)
            if mf and mf["kind"] != 4:
                return "implementation exhausted its iteration budget; the model terminates"
            return None
        stats["bound_checked"] += 1
        slack = f["ticks"] - (f["execs"] + f["cmds"] + 1)
        stats["max_slack"] = max(stats["max_slack"], slack)
        if slack > 0:
            return f"iterations {f['ticks']} exceed executed {f['execs']} + commands {f['cmds']} + 1"
        return None

    # command streams whose BYTES are not UTF-8: every string of up to three bytes over lead bytes of each length, a stray
    # continuation byte, a letter and a line end, as the first line of the stream, followed by `continue` - the reader must get
    # past any of them (one character per call, at least one byte per character: C14_utf8_reader_total) and reach the end of input
    src_b = [ord(c) for c in "add r0 r0 #1\nhalt\n"]
    bcases, btags = [], []
    for n in range(1, 4):
        for tup in itertools.product((0xC3, 0xE9, 0xE2, 0xF0, 0x80, 0x41, 0x0A), repeat=n):
            stream = list(b"echo " + bytes(tup) + b"\ncontinue\n")
            nums = [0, 6000, len(src_b)] + src_b + [0, 0, len(stream)] + stream
            bcases.append("DBGS " + " ".join(f"{v:x}" for v in nums)); btags.append("ill-formed-stream")
    r = dbgcommon.run_dbg_cases(ctx, cases, tags, violations, profiles, aux=AUX, extra=bound,
                                note="model: every iteration executes an instruction or reads a command (C16_no_spin), so iterations <= executed + commands + 1 (C16_progress)")
    rb = dbgcommon.run_dbg_cases(ctx, bcases, btags, violations, profiles, aux=AUX, extra=bound, text_too=False,
                                 note="a command stream holding bytes that are not UTF-8: the reader takes at least one byte per character (C14_utf8_reader_total) and the session reaches the end of input")
    r["evaluations"] += rb["evaluations"]; r["mismatches"] += rb["mismatches"]
    faults = stdin_faults(ctx, violations)
    r["evaluations"] += faults["sessions"]
    ctx.cleanup()
    return dbgcommon.coverage(r,
        "programs that jump to xFFFF, below the origin, to xFE00 and above, or park on HALT x EXHAUSTIVE sequences (length 2, thorough 3) "
        "of resuming commands {continue, step, step into 1/5/100, step out} issued at those PCs, followed by end of input, under both "
        "feature settings; HALT words with other reserved bits set (xF125 .. xFF25) in line, in a JSR and in a CALL subroutine; subroutines that end the program themselves (HALT before the return) with every resuming command at every point before it; goto from a parked state; random scripts on all program families ended by end of input; for every session "
        "the implementation's loop iterations are checked against the proved bound (executed + commands read + 1) and a session that "
        "hits the iteration cap where the model terminates is a violation", profiles,
        bound_checked=stats["bound_checked"], max_slack=stats["max_slack"], budget_hits=stats["budget_hits"],
        exhaustive=True, exhaustive_over="resuming-command sequences of the stated length at each special PC", failing_stdin=faults)


def stdin_faults(ctx, violations):
    """The real binary when its command stream cannot be read at all: stdin is a DIRECTORY (every read fails with EISDIR),
    closed, /dev/null or an empty pipe, with the `--command` script used up or absent.  Whatever the reader makes of it
    (end of input, an error exit), the session must END: it may not sit in the reader executing no instruction and
    consuming no command."""
    import os, subprocess, time
    import clicommon
    exe = ctx.cli()
    d = clicommon.fresh_dir(ctx, "stdinfault")
    open(os.path.join(d, "p.asm"), "w").write("add r0 r0 #1\nadd r0 r0 #2\nhalt\n")
    open(os.path.join(d, "loop.asm"), "w").write("and r0 r0 #0\nadd r0 r0 #5\nl add r0 r0 #-1\nbrp l\nhalt\n")
    n = bad = 0
    res = []
    for prog in ("p.asm", "loop.asm"):
        for script in (None, "continue", "step; step", "registers"):
            for kind in ("directory", "closed", "devnull", "empty-pipe"):
                args = [exe, "debug", prog, "--minimal"] + (["--command", script] if script is not None else [])
                fd = None
                if kind == "directory":
                    fd = os.open(d, os.O_RDONLY); stdin = fd
                elif kind == "devnull":
                    stdin = subprocess.DEVNULL
                elif kind == "empty-pipe":
                    stdin = subprocess.PIPE
                else:
                    stdin = None
                try:
                    p = subprocess.Popen(args, cwd=d, stdin=stdin, stdout=subprocess.DEVNULL, stderr=subprocess.DEVNULL,
                                         env=dict(os.environ, NO_COLOR="1", RUST_BACKTRACE="0"),
                                         close_fds=True, preexec_fn=(lambda: os.close(0)) if kind == "closed" else None)
                    if kind == "empty-pipe":
                        p.stdin.close()
                    t0 = time.time()
                    try:
                        rc = p.wait(timeout=8)
                    except subprocess.TimeoutExpired:
                        p.kill(); p.wait(); rc = None
                finally:
                    if fd is not None:
                        os.close(fd)
                n += 1
                res.append((prog, script, kind, rc))
                if rc is None:
                    bad += 1
                    if bad <= 4:
                        violations.append({"kind": "session-does-not-end", "program": prog, "command_script": script, "stdin": kind,
                                           "why": "still running after 8 s with nothing left to execute or read"})
    hist = {}
    for _, _, kind, rc in res:
        hist[f"{kind}:{rc}"] = hist.get(f"{kind}:{rc}", 0) + 1
    return {"sessions": n, "did_not_end": bad, "exit_status_by_stdin": hist,
            "rule": "real `lace debug --minimal [--command S]` with stdin a directory (reads fail), closed, /dev/null, an empty pipe: the process must end within 8 s"}


def replay(ctx, payload):
    return dbgcommon.replay_dbg(ctx, payload)
