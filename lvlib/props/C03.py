"""C03 — running an image follows the machine model from load to stop.

Correspondence: RunEnvironment::from_raw(..).run() (hooks: fetch budget + trace, injected input,
captured output, exit -> unwind) vs. Vm.from_raw / Vm.vm_run (extracted)."""
import os, random
from core import log
from lc3 import *
import clicommon

ASSUMPTIONS = [
    "terminal (TTY) input - raw mode, key decoding - is outside the model; in-process runs observe console I/O through the lace_verif buffers, and the real-binary stage observes a piped stdin / stdout of the real process (including the end of the input stream)",
    "output is observed through lace's --minimal filter",
]

ORIGINS = [0x3000, 0x3000, 0x3000, 0, 1, 0x2FFF, 0x8000, 0xFD00, 0xFDF0]


def prog_counted_loop(rnd):
    k = rnd.randrange(1, 16)
    return [ANDI(0, 0, 0), ADDI(0, 0, k), ANDI(1, 1, 0), ADD(1, 1, 0), ADDI(0, 0, -1), BR(1, -3),
            ADD(0, 1, 1), PUTN, HALT]


def prog_back_edge_to_origin(rnd):
    # loop whose back-edge targets the origin itself; counter kept in memory after the code
    return [LD(0, 5), ADDI(0, 0, -1), ST(0, 3), BR(1, -4), REG, HALT, rnd.randrange(2, 9)]


def prog_nested_jsr(rnd):
    # main: JSR f; OUT; HALT   f: save R7, JSR g, restore, RET   g: ADD; RET
    return [LD(0, 9), JSR(3), OUT, HALT, 0,
            ST(7, -2), JSR(3), LD(7, -4), RET, 0x41,
            ADDI(0, 0, 1), RET]


def prog_call_rets(rnd):
    return [ANDI(0, 0, 0), ADDI(0, 0, 5), CALL(2), PUTN, HALT,
            PUSH(0), ADDI(0, 0, 7), CALL(3), POP(1), ADD(0, 0, 1), RETS,
            ADD(0, 0, 0), RETS]


def prog_recursive_call(rnd):
    n = rnd.randrange(1, 8)
    # f(n): if n==0 ret; n--; call f
    return [ANDI(0, 0, 0), ADDI(0, 0, n), CALL(2), REG, HALT,
            ADDI(0, 0, 0), BR(2, 2), ADDI(0, 0, -1), CALL(-4), RETS]


def prog_selfmod(rnd):
    # overwrite the instruction two ahead with ADD R1,R1,#5, then an instruction with HALT
    return [LD(0, 4), ST(0, 1), TRAP(0x80), PUTN, HALT, ADDI(0, 1, 5), BR(0, 0)]


def prog_no_halt(rnd):
    return [ADDI(rnd.randrange(8), rnd.randrange(8), rnd.randrange(-16, 16)) for _ in range(rnd.randrange(1, 6))]


def prog_jump(rnd):
    target = rnd.choice([0xFFFF, 0xFE00, 0xFDFF, 0xFFFE, 0x0000, 0x2FFF, 0x8000])
    return [LD(2, 2), LEA(0, 3), JMP(2), target, 0x0048, 0x0069, 0]


def prog_strings(rnd):
    chars = [rnd.choice([0x41, 0x7A, 0x20, 0x0A, 0x1B, 0x80, 0xFF, 0xC3, 0x5B, 0x6D, 0x141, 0xFF41])
             for _ in range(rnd.randrange(0, 7))] + [rnd.choice([0, 0x100, 0xAB00])]
    packed = [rnd.choice([0x4241, 0x0043, 0x4400, 0x1B5B, 0x6D31, 0xC3A9, 0xFFFF, 0x8080])
              for _ in range(rnd.randrange(0, 5))] + [rnd.choice([0, 0x0045])] + [0]
    code = [LEA(0, 6), PUTS, LEA(0, 4 + len(chars)), PUTSP, LD(0, 2), OUT, HALT, rnd.choice([0x41, 0x1B, 0x3C3, 0])]
    # fix up LEA offsets: strings start after the 8 code words
    code[0] = LEA(0, 7)
    code[2] = LEA(0, 5 + len(chars))
    code[4] = LD(0, 2)
    return code + chars + packed


def prog_string_wrap(rnd):
    # store a character at xFFFF and xFFFE, then PUTS from xFFFE: the walk wraps to address 0
    return [LD(1, 8), LD(2, 8), STR(2, 1, 0), STR(2, 1, 1), ADD(0, 1, 1), ANDI(0, 1, -1), PUTS, PUTSP, HALT,
            0xFFFE, rnd.choice([0x41, 0x4142, 0x1B41])]


def prog_input(rnd):
    return [GETC, OUT, IN, PUTN, GETC, REG, IN, HALT][: rnd.randrange(2, 9)] + [HALT]


def prog_stack_words(rnd):
    # raw 0xD words (reserved opcode when the feature is off)
    return [ADDI(1, 1, 3), rnd.choice([PUSH(1), POP(2), CALL(1), RETS]), PUTN, HALT]


def prog_unknown_trap(rnd):
    return [ADDI(0, 0, 1), TRAP(rnd.choice([0x00, 0x1F, 0x28, 0x80, 0xFF])), HALT]


def prog_rti(rnd):
    return [ADDI(0, 0, 1), 0x8000, HALT]


def prog_random_weighted(rnd):
    n = rnd.randrange(1, 40)
    ws = []
    for _ in range(n):
        op = rnd.choice([0, 1, 1, 2, 3, 4, 5, 5, 6, 7, 9, 10, 11, 12, 13, 14, 15])
        w = (op << 12) | rnd.randrange(4096)
        if op == 15:
            w = 0xF000 | rnd.choice([0x20, 0x21, 0x22, 0x23, 0x24, 0x25, 0x26, 0x27, rnd.randrange(256)])
        if op in (0, 2, 3, 10, 11, 14) and rnd.random() < 0.7:
            w = (w & 0xFE00) | s(rnd.randrange(-8, 24), 9)      # keep PC-relative accesses near the code
        ws.append(w)
    return ws


def prog_random_uniform(rnd):
    return [rnd.randrange(65536) for _ in range(rnd.randrange(1, 30))]


def prog_flag_boundary(rnd):
    """A flag-setting instruction (LD, LDI, LDR, ADD, AND, NOT) whose result is a boundary value (x8000, x7FFF, xFFFF, 0, 1,
    x8001), observed at once by REG and by BRn / BRz / BRp."""
    v = rnd.choice([0x8000, 0x8000, 0x7FFF, 0xFFFF, 0x0000, 0x0001, 0x8001])
    how = rnd.choice(["ld", "ldi", "ldr", "add", "and", "not"])
    # layout: [0..k) producer, then: REG, BRn +3, BRz +4, BRp +5, HALT, (N:) LD r0 cN; OUT; HALT ... ; data
    if how == "ld":
        prod = [("LD3", "d0")]
        data = [v]
    elif how == "ldi":
        prod = [("LDI3", "d1")]
        data = [v, None]            # d1 holds the address of d0
    elif how == "ldr":
        prod = [("LEA4", "d0"), LDR(3, 4, 0)]
        data = [v]
    elif how == "add":
        b = rnd.choice([0x4000, 1, 0x7FFF, 0xFFFF])
        prod = [("LD1", "d0"), ("LD2", "d1"), ADD(3, 1, 2)]
        data = [(v - b) & 0xFFFF, b]
    elif how == "and":
        prod = [("LD1", "d0"), ("LD2", "d1"), AND(3, 1, 2)]
        data = [v | 0x0F0, v | 0x7000 if v & 0x8000 == 0 else v | 0x0700]
        data[1] = (~(data[0] & ~v)) & 0xFFFF if True else data[1]     # data0 & data1 == v
    else:
        prod = [("LD1", "d0"), NOT(3, 1)]
        data = [(~v) & 0xFFFF]
    tail = ["REG", ("BRn", "N"), ("BRz", "Z"), ("BRp", "P"), HALT,
            "N:", ("LD0", "cN"), OUT, HALT, "Z:", ("LD0", "cZ"), OUT, HALT, "P:", ("LD0", "cP"), OUT, HALT,
            "cN:", 0x4E, "cZ:", 0x5A, "cP:", 0x50]
    items = prod + tail + ["d0:", data[0]] + (["d1:", data[1]] if len(data) > 1 else [])
    # resolve
    pos, labels = 0, {}
    for it in items:
        if isinstance(it, str) and it.endswith(":"):
            labels[it[:-1]] = pos
        else:
            pos += 1
    out, pos = [], 0
    for it in items:
        if isinstance(it, str) and it.endswith(":"):
            continue
        if it == "REG":
            w = 0xF027
        elif isinstance(it, tuple):
            op, lab = it
            off = labels[lab] - (pos + 1)
            w = {"LD3": LD(3, off), "LDI3": LDI(3, off), "LEA4": LEA(4, off), "LD1": LD(1, off), "LD2": LD(2, off),
                 "LD0": LD(0, off), "BRn": BR(4, off), "BRz": BR(2, off), "BRp": BR(1, off)}[op]
        elif it is None:
            w = ("ADDR", labels["d0"])      # resolved against the origin by gen_cases
        else:
            w = it
        out.append(w); pos += 1
    return out


def prog_trap_high_bits(rnd):
    """TRAP words whose unused bits [11:8] are not zero (the assembler never emits them; images and self-modifying code
    can): the routine is selected by bits [7:0] alone."""
    h = lambda v: 0xF000 | (rnd.randrange(1, 16) << 8) | v
    body = [LD(0, 6), h(0x21), h(0x26), LEA(0, 5), h(0x22), h(0x27), h(0x25), rnd.choice([0x41, 0x7A, 0xFFF9]),
            0x4869, 0x0000]
    k = rnd.randrange(4)
    if k == 1:
        body[1] = h(0x20)          # GETC with high bits
    elif k == 2:
        body[2] = h(0x23)          # IN
    elif k == 3:
        body[4] = h(0x24)          # PUTSP
    return body


TEMPLATES = [prog_flag_boundary, prog_trap_high_bits, prog_counted_loop, prog_back_edge_to_origin, prog_nested_jsr, prog_call_rets, prog_recursive_call,
             prog_selfmod, prog_no_halt, prog_jump, prog_strings, prog_string_wrap, prog_input,
             prog_stack_words, prog_unknown_trap, prog_rti, prog_random_weighted, prog_random_weighted,
             prog_random_weighted, prog_random_uniform]


def gen_input(rnd):
    n = rnd.choice([0, 0, 1, 2, 3, 6])
    return [rnd.choice([0x41, 0x0A, 0x00, 0x7F, 0x80, 0xC3, 0xFF, 0x1B, rnd.randrange(256)]) for _ in range(n)]


def case_line(feat, fuel, raw, inp):
    nums = [feat, fuel, len(raw)] + raw + [len(inp)] + inp
    return "C03 " + " ".join(f"{x:x}" for x in nums)


def corpus():
    """Fixed cases first: loader boundaries and past failures."""
    cs = []
    cs.append(case_line(0, 10, [], []))                                  # empty image
    cs.append(case_line(0, 10, [0x3000], []))                            # origin only: implicit HALT at origin
    for origin, n in ((0xFFFF, 0), (0xFFFF, 1), (0xFFFE, 1), (0xFFFE, 2), (0xFFF0, 14), (0xFFF0, 15), (0xFFF0, 16),
                      (0xFDFF, 0), (0xFDFF, 1), (0xFE00, 1), (0, 3), (0xFDFE, 1)):
        cs.append(case_line(0, 50, [origin] + [ADDI(0, 0, 1)] * n, []))
    # PUTSP byte order / PUTS wrap witnesses (fixed defects F23, F2)
    cs.append(case_line(0, 50, [0x3000, LEA(0, 2), PUTSP, HALT, 0x4241, 0x0043, 0], []))
    cs.append(case_line(0, 50, [0x3000] + prog_string_wrap(random.Random(0)), []))
    # JSRR R7 (F22), stack pointer wrap (F1)
    cs.append(case_line(0, 50, [0x3000, LEA(7, 3), JSRR(7), LEA(0, 3), PUTS, HALT, LEA(0, 3), PUTS, HALT, 0x4E, 0, 0x59, 0], []))
    cs.append(case_line(1, 50, [0x3000, ANDI(7, 7, 0), PUSH(0), POP(1), ANDI(7, 7, 0), ADDI(7, 7, -1), POP(2), REG, HALT], []))
    return cs


def gen_cases(tier, seed):
    rnd = random.Random(seed)
    n = 2000 if tier == "quick" else 300000
    maxfuel = 2000 if tier == "quick" else 20000
    cases = corpus()
    tnames = ["corpus"] * len(cases)
    for i in range(n):
        t = TEMPLATES[i % len(TEMPLATES)]
        body = t(rnd)
        origin = rnd.choice(ORIGINS)
        if rnd.random() < 0.03:
            origin = 0x10000 - len(body) - rnd.choice([0, 1, 2])       # loader boundary
            origin = max(0, min(0xFFFF, origin))
        body = [((origin + w[1]) & 0xFFFF) if isinstance(w, tuple) else w for w in body]
        feat = rnd.randrange(2)
        if t in (prog_call_rets, prog_recursive_call) and rnd.random() < 0.8:
            feat = 1
        fuel = rnd.choice([maxfuel, maxfuel, maxfuel, rnd.randrange(0, 40)])
        cases.append(case_line(feat, fuel, [origin] + body, gen_input(rnd)))
        tnames.append(t.__name__)
    return cases, tnames


KINDS = {0: "finished", 1: "exit", 2: "panic", 3: "hung", 4: "out-of-fuel", 5: "loader-reject", 6: "loader-panic"}


def correspondence(ctx, violations, known_hits):
    cases, tnames = gen_cases(ctx.tier, ctx.seed)
    profiles = ["debug"] if ctx.tier == "quick" else ["debug", "release"]
    evaluations, nviol = 0, 0
    sigs, samples, hist, thist = set(), [], {}, {}
    vkeys = set()
    for prof in profiles:
        ri, rm, crashes = ctx.run_both(cases, profile=prof, tag="c03")
        for c in crashes:
            idx = c.get("case_index")
            violations.append({"kind": "implementation-crashed", "profile": prof,
                               "case": cases[idx] if idx is not None else None, "detail": c["tail"]})
        for ci, (a, b) in enumerate(zip(ri, rm)):
            if a is None:
                continue
            evaluations += 1
            la = a[0] if a else ""
            lb = b[0] if b else ""
            t = lb.split()
            kind = int(t[0], 16)
            code = int(t[1], 16) if len(t) > 1 else 0
            nfetch = int(t[-2], 16) if len(t) > 4 else 0
            nout = int(t[12], 16) if len(t) > 12 else 0
            sig = (tnames[ci], kind, code, min(nfetch, 3), min(nout, 2))
            hist[KINDS.get(kind, str(kind))] = hist.get(KINDS.get(kind, str(kind)), 0) + 1
            thist[tnames[ci]] = thist.get(tnames[ci], 0) + 1
            if sig not in sigs:
                sigs.add(sig)
                if len(samples) < 8:
                    samples.append({"template": tnames[ci], "case": cases[ci], "result": lb})
            if la != lb:
                nviol += 1
                key = (prof, tnames[ci], la.split()[:1], lb.split()[:1])
                if str(key) not in vkeys and len(vkeys) < 10:
                    vkeys.add(str(key))
                    small = shrink(ctx, cases[ci], prof)
                    ri2, rm2, _ = ctx.run_both([small], profile=prof, tag="shr")
                    spec = ctx.run_model([small.replace("C03 ", "C03S ", 1)], tag="spec")[0]
                    violations.append({"kind": "model-vs-implementation", "profile": prof, "template": tnames[ci],
                                       "case": small, "original_case": cases[ci],
                                       "implementation": ri2[0], "model": rm2[0], "spec": spec,
                                       "format": "kind code pc cc r0..r7 nout out.. inp_left nmem (addr val).. nfetch tracehash; "
                                                 "kind 0 finished 1 exit 2 panic 3 hung 4 out-of-fuel 5 loader-reject",
                                       "note": "MODEL = SPEC is proved (C03_run, C03_load), so on this image the implementation departs from the reference machine"})
    real = real_binary(ctx, cases, tnames, violations)
    evaluations += real["runs"]
    ctx.cleanup()
    return {
        "evaluations": evaluations,
        "real_binary": real,
        "distinct_nontrivial": len(sigs),
        "rule": "images = fixed corpus (loader boundaries, witnesses of repaired defects) + seeded structured programs "
                "(counted loops, back-edge to the origin, nested JSR/RET, CALL/RETS, recursion, self-modifying stores, "
                "no HALT, jumps to xFFFF/below origin/xFE00+, PUTS/PUTSP incl. non-ASCII and wrap at xFFFF, GETC/IN with EOF, "
                "raw 0xD words, unknown traps, RTI) + opcode-weighted and uniform random word images, at several origins, "
                "with random console input, under a fetch budget; compared: stop kind, exit code, registers, PC, CC, output, "
                "remaining input, all memory, number of fetches and a hash of the (address, word) fetch trace; "
                "distinct = distinct (template, stop kind, exit code, min(fetches,3), min(outputs,2))",
        "stop_kind_histogram": hist, "template_histogram": thist, "profiles": profiles,
        "samples": samples, "mismatches": nviol,
    }


def real_run(exe, sub, case):
    """The real binary on the image of [case] with the case's input as its (piped) standard input."""
    feat, _, raw, inp = parse_case(case)
    os.makedirs(sub, exist_ok=True)
    with open(os.path.join(sub, "img.lc3"), "wb") as f:
        f.write(b"".join(bytes([w >> 8, w & 255]) for w in raw))
    rc, so, se = clicommon.run_cli(exe, ["run", "img.lc3", "--minimal"] + (["-f", "stack"] if feat else []), sub,
                                   stdin=bytes(inp), timeout=20)
    return rc, clicommon.program_output(so), se.decode("utf-8", errors="replace")[-300:]


def real_binary(ctx, cases, tnames, violations):
    """The same images through the REAL process: `lace run img.lc3` with the input bytes on a pipe (the in-process runs
    inject input below the reader in read_byte_stdin, so the end of a real stream is only seen here)."""
    exe = ctx.cli()
    rnd = random.Random(ctx.seed + 3)
    want = 250 if ctx.tier == "quick" else 4000
    reading = [i for i, c in enumerate(cases) if tnames[i] in ("corpus", "prog_input", "prog_trap_high_bits", "prog_strings") or " f020 " in c + " " or " f023 " in c + " "]
    pick = sorted(set(reading[:want // 2] + rnd.sample(range(len(cases)), min(len(cases), want // 2))))
    # designed: reads at and past the end of the input, all byte values
    extra = []
    for body in ([GETC, OUT, GETC, OUT, HALT], [IN, HALT], [GETC, IN, GETC, PUTN, HALT], [GETC, GETC, GETC, REG, HALT],
                 [LEA(0, 3), PUTS, GETC, HALT, 0x3F, 0], [GETC, OUT, BR(7, -3)]):
        for inp in ([], [0x41], [0x41, 0x42], [0xE9], [0, 0], [0x0A, 0xFF, 0x80]):
            extra.append(case_line(0, 20000, [0x3000] + body, inp))
    sel = [case_line(parse_case(cases[i])[0], 20000, *parse_case(cases[i])[2:]) for i in pick] + extra
    model = ctx.run_model(sel, tag="c03real")
    d = clicommon.fresh_dir(ctx, "real")
    todo = []
    skipped = 0
    for k, c in enumerate(sel):
        code, out, kind = clicommon.model_obs(model[k][0])
        if kind in (3, 4):
            skipped += 1
            continue
        todo.append((k, c, code, out, kind))
    res = clicommon.parallel([(lambda k=k, c=c: real_run(exe, os.path.join(d, str(k)), c)) for k, c, *_ in todo])
    bad, hist = 0, {}
    for (k, c, code, out, kind), (rc, pout, err) in zip(todo, res):
        hist[KINDS.get(kind, str(kind))] = hist.get(KINDS.get(kind, str(kind)), 0) + 1
        if rc != code or (out is not None and pout != out):
            bad += 1
            if bad <= 5:
                violations.append({"kind": "real-binary-vs-model", "case": c, "stdin": bytes(parse_case(c)[3]).hex(),
                                   "cli": [rc, pout], "stderr_tail": err, "model": [code, out], "model_line": model[k][0],
                                   "note": "`lace run img.lc3 --minimal` with the input on a pipe; MODEL = SPEC is proved (C03_run), "
                                           "so the process departs from the reference machine on this image and input"})
    return {"runs": len(todo), "skipped_nonterminating": skipped, "mismatches": bad, "stop_kind_histogram": hist,
            "designed_end_of_input_cases": len(extra)}


def parse_case(case):
    t = [int(x, 16) for x in case.split()[1:]]
    feat, fuel, nraw = t[0], t[1], t[2]
    raw = t[3:3 + nraw]
    ninp = t[3 + nraw]
    inp = t[4 + nraw:4 + nraw + ninp]
    return feat, fuel, raw, inp


def shrink(ctx, case, prof):
    """Greedy: drop trailing words / input bytes, lower fuel, while the two sides still differ."""
    feat, fuel, raw, inp = parse_case(case)

    def differs(c):
        ri, rm, _ = ctx.run_both([c], profile=prof, tag="shr")
        return ri[0] != rm[0]

    best = (feat, fuel, raw, inp)
    changed = True
    rounds = 0
    while changed and rounds < 40:
        changed = False
        rounds += 1
        feat, fuel, raw, inp = best
        cands = []
        if len(raw) > 1:
            cands.append((feat, fuel, raw[:-1], inp))
        if inp:
            cands.append((feat, fuel, raw, inp[:-1]))
        if fuel > 1:
            cands.append((feat, fuel // 2, raw, inp))
            cands.append((feat, fuel - 1, raw, inp))
        for cnd in cands:
            if differs(case_line(*cnd)):
                best = cnd
                changed = True
                break
    return case_line(*best)


def replay(ctx, payload):
    case = payload["case"]
    if payload.get("kind") == "real-binary-vs-model":
        m = ctx.run_model([case], tag="replay")[0]
        code, out, kind = clicommon.model_obs(m[0])
        rc, pout, err = real_run(ctx.cli(), clicommon.fresh_dir(ctx, "replay-real"), case)
        log(f"case  : {case}")
        log(f"cli   : exit {rc} output {pout!r}  stderr ...{err!r}")
        log(f"model : exit {code} output {out!r}")
        same = rc == code and (out is None or pout == out)
        log("agree" if same else "DISAGREE")
        return 0 if same else 1
    ri, rm, _ = ctx.run_both([case], profile=payload.get("profile", "debug"), tag="replay")
    spec = ctx.run_model([case.replace("C03 ", "C03S ", 1)], tag="spec")
    log(f"case           : {case}")
    log(f"implementation : {ri[0]}")
    log(f"model          : {rm[0]}")
    log(f"spec           : {spec[0]}")
    same = ri[0] == rm[0]
    log("agree" if same else "DISAGREE")
    return 0 if same else 1
