"""C07 — check, compile and run agree on which sources are valid (CLI level)."""
import os, random, subprocess, time
import asmgen, clicommon, asmcommon
import core
from core import log
from props import C04, C06

ASSUMPTIONS = [
    "`lace watch` is driven for real (inotify works in this sandbox): ~27 re-checks in the quick tier, ~45 in the thorough tier, over two processes",
    "every generated source starts with `halt`, so that `lace run` terminates at once when the source assembles",
]

PCREL = ["br", "brn", "brnzp", "ld r1", "ldi r2", "lea r3", "st r4", "sti r5", "jsr"]


def emission_only_errors(rnd, tier):
    """Sources whose ONLY error is a label reference too far away, at every statement position."""
    out = []
    for m in PCREL + ["call"]:
        feat = 1 if m == "call" else 0
        n = 6 if tier == "quick" else 12
        for pos in range(n + 1):
            stmts = ["add r0 r0 #1"] * n
            stmts.insert(pos, f"{m} far")
            far_fwd = "\n".join(["halt"] + stmts + [".blkw x900", "far halt"]) + "\n"
            far_back = "\n".join(["halt", "far halt", ".blkw x900"] + stmts) + "\n"
            out.append((feat, far_fwd, "emit-fwd")); out.append((feat, far_back, "emit-back"))
    return out


def gen_sources(tier, seed):
    rnd = random.Random(seed)
    srcs = emission_only_errors(rnd, tier)
    for m, operand in (("push", " r1"), ("pop", " r2"), ("call", " s"), ("rets", "")):
        for feat in (0, 1):
            srcs.append((feat, f"halt\n{m}{operand}\ns halt\n", "stack-mnemonic"))
            srcs.append((feat, f"halt\n{m.upper()}{operand}\ns halt\n", "stack-mnemonic"))
    # MANY errors of one kind: an exit status is 8 bits wide, a count of diagnostics is not
    for nerr in (255, 256, 257, 512, 1024):
        srcs.append((0, "halt\n" + "br far\n" * nerr + ".blkw #600\nfar halt\n", "many-emit-errors"))
        srcs.append((0, "halt\n" + "".join("ld r1 u%d\n" % i for i in range(nerr)), "many-undefined"))
        srcs.append((0, "halt\n" + "add r0 r0 #99\n" * nerr, "many-range-errors"))
    cases, tags = C04.gen_cases("quick", seed)
    picked = [(c, t) for c, t in zip(cases, tags) if not t.startswith("random") and not t.startswith("spelling")]
    rnd.shuffle(picked)
    dist = [(c, t) for c, t in picked if t.startswith("dist") or t.startswith("case-only")]      # every distance boundary, always
    rest = [(c, t) for c, t in picked if not (t.startswith("dist") or t.startswith("case-only"))]
    for c, t in dist + rest[: (150 if tier == "quick" else 1200)]:
        feat, ss = asmcommon.decode_case(c)
        srcs.append((feat, ss[0][1], "c04-" + t))      # unchanged: sizes and distances matter; these all terminate
    for i in range(60 if tier == "quick" else 1500):
        feat = rnd.randrange(2)
        items = asmgen.gen_program(rnd, stack=bool(feat), nstmts=rnd.choice([1, 3, 6]), want_valid=rnd.random() < 0.7)
        text = "halt\n" + asmgen.render(rnd, items, style="plain")
        if rnd.random() < 0.3:
            text = asmgen.mutate(rnd, text)
            if not text.startswith("halt"):
                text = "halt\n" + text
        srcs.append((feat, text, "random"))
    # what a file may BEGIN with: interpreter lines, byte-order marks, comment styles of other languages, control characters - in
    # front of a program that is valid from the first line break on; whatever lace makes of such a beginning, every sub-command
    # must make the same of it
    for first in ("#!/usr/bin/env lace", "#!", "#! halt", "#", "# comment", "//", "// x", "/* x */", "--", "%", "!", "@", "$", "'", "`", "\ufeff", "\ufeff; c",
                  ";;", ";!", "\x0c", "\x00", "\x1a", "\t", " ", "\r", "#!\r", "<?xml?>", "{", "}", "\\", "~", "^", "&", "*", "(", ")", "=", "+", "|", "<", ">", "?", "."):
        srcs.append((0, first + "\nhalt\n", "first-line"))
        srcs.append((0, first + " halt\n", "first-line"))
    return srcs


def objb_case(feat, data):
    return "OBJB " + " ".join(f"{x:x}" for x in [feat, len(data)] + list(data))


def byte_sources(tier, seed):
    """Sources given as the BYTES of their file: every sub-command reads with strict UTF-8 decoding (CliFile.v), so a
    file that is not valid UTF-8 - wherever the offending bytes stand: comment, string literal, label, after `.end` - is
    rejected by all of them alike, and a valid one gets the verdict of its text."""
    rnd = random.Random(seed + 77)
    bad_seqs = [b"\xe9", b"\xff", b"\xfe\xff", b"\xc0\xaf", b"\xc1\xbf", b"\xe0\x80\xaf", b"\xe0\x9f\xbf", b"\xed\xa0\x80", b"\xed\xbf\xbf",
                b"\xf0\x8f\xbf\xbf", b"\xf4\x90\x80\x80", b"\xf5\x80\x80\x80", b"\xf8\x88\x80\x80\x80", b"\x80", b"\xbf", b"\xc3", b"\xe2\x82", b"\xf0\x9f\x8d",
                b"\xc3\x28", b"\xe2\x28\xa1", b"\xe2\x82\x28", b"\xf0\x28\x8c\xbc", b"\xf0\x9f\x28\x8b", b"gr\xfcn", b"caf\xe9"]
    good_seqs = ["\u00e9".encode(), "\u20ac".encode(), "\U0001f34b".encode(), "\ud7ff".encode(), "\ue000".encode(), "\U0010ffff".encode(), b"\xc2\x80", b"\xdf\xbf",
                 b"\xe0\xa0\x80", b"\xef\xbf\xbf", b"\xf0\x90\x80\x80", b"\xf4\x8f\xbf\xbf", b"\xed\x9f\xbf", b"\xee\x80\x80"]
    frames = [(b"halt ; ", b"\n"), (b"halt\nlea r0 s\ns .stringz \"", b"\"\n"), (b"halt\n.end\n", b"\n"), (b"halt ;", b""), (b"halt\n; ", b" more\nadd r0 r0 #1\n"),
              (b"", b"\nhalt\n"), (b"halt\nx", b" add r0 r0 #1\n")]
    out = []
    for seqs, tag in ((bad_seqs, "invalid-utf8"), (good_seqs, "valid-multibyte")):
        for q in seqs:
            for a, b in frames:
                out.append((0, a + q + b, tag))
    out.append((1, b"halt\npush r0 ; \xe9\n", "invalid-utf8")); out.append((1, b"halt\npush r0 ; \xc3\xa9\n", "valid-multibyte"))
    for _ in range(40 if tier == "quick" else 2000):        # random byte soup after a valid first line
        n = rnd.randrange(1, 12)
        out.append((0, b"halt ; " + bytes(rnd.choice([rnd.randrange(128, 256), rnd.randrange(32, 127)]) for _ in range(n)) + b"\n", "random-bytes"))
    return out


def correspondence(ctx, violations, known_hits):
    exe = ctx.cli()
    srcs = gen_sources(ctx.tier, ctx.seed)
    nb_text = len(srcs)
    srcs += byte_sources(ctx.tier, ctx.seed)
    d = clicommon.fresh_dir(ctx, "cli")
    model = ctx.run_model([C06.obj_case(f, t) if isinstance(t, str) else objb_case(f, t) for f, t, _ in srcs], tag="obj")

    def job(i):
        feat, text, tag = srcs[i]
        def run():
            sub = os.path.join(d, str(i)); os.makedirs(sub, exist_ok=True)
            with open(os.path.join(sub, "p.asm"), "wb") as f:
                f.write(text.encode("utf-8") if isinstance(text, str) else text)
            # an object file of the same base name beside the source, younger (even i) or older (odd i) than it, built from
            # SOMETHING ELSE (a bare HALT): what `run` says about the source may not depend on it
            with open(os.path.join(sub, "p.lc3"), "wb") as f:
                f.write(bytes.fromhex("3000f025"))
            now = time.time()
            os.utime(os.path.join(sub, "p.asm"), (now - 100, now - 100))
            os.utime(os.path.join(sub, "p.lc3"), (now, now) if i % 2 == 0 else (now - 5000, now - 5000))
            fl = ["-f", "stack"] if feat else []
            chk = clicommon.run_cli(exe, ["check", "p.asm"] + fl, sub)
            cmp_ = clicommon.run_cli(exe, ["compile", "p.asm", "o.lc3"] + fl, sub)
            run_ = clicommon.run_cli(exe, ["run", "p.asm", "--minimal"] + fl, sub, stdin=b"", timeout=5)
            # `run` got past assembly iff it announced the run (the program's own exit status is not the verdict)
            run_rc = 0 if clicommon.RUNNING.encode() in run_[1] else (run_[0] if run_[0] not in (0, -9) else 1)
            if not isinstance(text, str):
                # files given as bytes: also the bare `lace FILE` form and `lace debug` (both assemble through run()),
                # and the object bytes `compile` wrote
                bare = clicommon.run_cli(exe, ["p.asm", "--minimal"] + fl, sub, stdin=b"", timeout=5)
                dbg = clicommon.run_cli(exe, ["debug", "p.asm", "--minimal", "--command", "exit"] + fl, sub, stdin=b"", timeout=5)
                for x in (bare, dbg):
                    rc2 = 0 if clicommon.RUNNING.encode() in x[1] else (x[0] if x[0] not in (0, -9) else 1)
                    if (rc2 in (0, 238)) != (run_rc in (0, 238)):
                        run_rc = 1000 + rc2            # the forms of `run` disagree among themselves
                obj = os.path.join(sub, "o.lc3")
                got = open(obj, "rb").read() if os.path.exists(obj) else None
                mo = [int(x, 16) for x in model[i][0].split()]
                want = bytes(mo[2:2 + mo[1]]) if mo[0] == 0 else None
                if got != want:
                    return chk[0], 2000 + cmp_[0], run_rc, chk[2][-200:]
            return chk[0], cmp_[0], run_rc, chk[2][-200:]
        return run

    res = clicommon.parallel([job(i) for i in range(len(srcs))])
    ev, nv, sigs, samples, hist = 0, 0, set(), [], {}
    for i, (c, m, r, err) in enumerate(res):
        feat, text, tag = srcs[i]
        me = int(model[i][0].split()[0], 16)
        ev += 1
        run_ok = 0 if r in (0, 238) else (1 if r == 1 else r)
        verdicts = (c, m, run_ok)
        sig = (tag.split("-")[0], me)
        hist[str(sig)] = hist.get(str(sig), 0) + 1
        if sig not in sigs:
            sigs.add(sig)
            if len(samples) < 6:
                samples.append({"tag": tag, "feature_stack": feat, "source": text[:200] if isinstance(text, str) else "bytes " + text[:100].hex(), "exits": [c, m, r], "model": me})
        if not (c == m == run_ok == me):
            nv += 1
            if nv <= 8:
                violations.append({"kind": "verdicts-disagree", "tag": tag, "feature_stack": feat, "source": text if isinstance(text, str) else "bytes " + text.hex(),
                                   "check_exit": c, "compile_exit": m, "run_exit": r, "model_exit": me, "check_stderr": err.decode(errors="replace")})
    # the source delivered through a NAMED PIPE (reported size 0, readable once), separately to each sub-command: the three agree on
    # it as they do on the regular file
    import clicommon as _cc
    fsub = _cc.fresh_dir(ctx, "c07fifo")
    for k, text in enumerate(("halt\n", "halt\nadd r0 r0\n", "halt\nbr nowhere\n", "halt\nbr far\n.blkw #600\nfar halt\n", "", "halt\nlea r0 s\ns .stringz \"x\"\n")):
        open(os.path.join(fsub, "r%d.asm" % k), "w").write(text)
        reg = [_cc.run_cli(exe, a, fsub)[0] for a in (["check", "r%d.asm" % k], ["compile", "r%d.asm" % k, "r%d.lc3" % k], ["run", "r%d.asm" % k, "--minimal"])]
        got = [_cc.run_cli_fifo(exe, a, fsub, "p.asm", text.encode())[0] for a in (["check", "p.asm"], ["compile", "p.asm", "p%d.lc3" % k], ["run", "p.asm", "--minimal"])]
        ev += 1
        if [x != 0 for x in reg] != [x != 0 for x in got] or len({x != 0 for x in got}) != 1:
            nv += 1
            violations.append({"kind": "source-through-a-named-pipe", "source": text, "exits_on_the_regular_file": dict(zip(("check", "compile", "run"), reg)),
                               "exits_on_the_named_pipe": dict(zip(("check", "compile", "run"), got))})
    import concurrent.futures
    with concurrent.futures.ThreadPoolExecutor(2) as pool:          # the two watchers do not share anything
        futs = [pool.submit(drive_watch, ctx, exe, srcs, model, violations, None, ft) for ft in (0, 1)]
        watch = [x.result() for x in futs]
    ev += sum(w["rechecks"] for w in watch)
    ctx.cleanup()
    return {
        "evaluations": ev, "distinct_nontrivial": len(sigs),
        "rule": "CLI exit status of `lace check`, `lace compile`, `lace run` on the same file under each feature setting, vs each other "
                "and vs the model's verdict: sources whose only error is a too-distant label reference at EVERY statement position x "
                "every PC-relative instruction (forwards and backwards), sources using each stack mnemonic, the C04 boundary corpus, "
                "random valid/invalid/mutated programs; beside every source lies an unrelated object file of the same base name, younger or older than the source; sources given as the BYTES of their file (model CliFile.v, case kind OBJB): 25 ill-formed UTF-8 sequences (over-long forms, surrogates, beyond U+10FFFF, truncated, stray continuation, Latin-1) and 14 boundary well-formed ones, each in a comment, a string literal, after `.end`, at end of file, in label position, plus random high bytes - check / compile (and the object bytes) / run / bare `lace FILE` / debug against each other and the model; a real `lace watch` process without and one with `-f stack`, each driven through a designed sequence of file rewrites (re-checks that fail after recording labels, then sources that reuse or only reference those labels, emission-only errors, the stack extension's mnemonics as instructions and as labels), each re-check's verdict compared with the model's; "
                "distinct = distinct (source class, verdict)",
        "histogram": hist, "samples": samples, "mismatches": nv, "watch": watch,
    }


# what a re-check ends with: the success line, a rendered diagnostic, or a panic
VERDICT_MARKS = ("no errors found", "\u00d7", "Error", "error", "panicked")

STACK_SEQ = [
    "push r1\npop r2\nhalt\n",                                   # the extension's mnemonics: valid with -f stack only
    "lbl_a push r0\nlbl_b add r0\n",                             # fails after recording labels
    "call sub\nhalt\nsub push r7\npop r7\nrets\n",
    "push halt\nbr push\n",                                     # `push` as a label: valid WITHOUT the flag only
    "far rets\n.blkw x200\nbr far\n",                           # fails only at emission
    "call sub\nhalt\nsub rets\n",
    ".fill xD123\nhalt\n",                                      # a data word that looks like an extension instruction
    "halt\n",
]


def drive_watch(ctx, exe, srcs, model, violations, seq=None, feat=0):
    """One real `lace watch` process (with `-f stack` when feat=1); rewrite the file, compare each re-check's verdict
    with the model's verdict for the same contents and the same flag (= what `lace check` must say).  The sequence
    starts with re-checks that FAIL after recording labels, followed by sources that reuse / only reference those
    labels: a re-check must not depend on what an earlier re-check left behind.  A re-check that announces itself
    and then gives no verdict (a panic, or the watcher gone) is a disagreement too."""
    designed = [
        "lbl_a halt\nlbl_b add r0\n",              # fails after recording lbl_a, lbl_b
        "lbl_a halt\nlbl_b br lbl_a\n",            # valid, same labels
        "phantom halt\nother add r0 r0\n",         # fails after recording phantom
        "br phantom\nhalt\n",                       # invalid: phantom is not defined here
        "far halt\n.blkw x200\nbr far\n",          # fails only at emission
        "far halt\nbr far\n",                       # valid
        "halt\n",
        # versions that assemble to NO statement but record a label (before `.orig` / `.break`), then versions that define
        # or only reference that label: the re-check after an 'empty' success starts from a clean table too
        "start .orig x3000\n",
        "start add r0 r0 #1\nhalt\n",              # valid alone
        "here .break\n",
        "br here\nhalt\n",                          # invalid alone: `here` is not defined in THIS version
        "",
        "start .orig x3000\n",
        "br start\nhalt\n",                         # invalid alone
        "; only a comment\n",
        "start halt\n",
    ]
    if seq is None:
        extra = [srcs[i][1] for i in range(len(srcs)) if srcs[i][0] == feat and isinstance(srcs[i][1], str)][:200:17][: (3 if ctx.tier == "quick" else 12)]
        seq = (STACK_SEQ + designed[:2] if feat else designed + STACK_SEQ[:4]) + extra
    verdicts = ctx.run_model([C06.obj_case(feat, t) for t in seq], tag="watchobj%d" % feat)
    # the watcher MODEL (Watch.v: one process, symbol table threaded from re-check to re-check, reset after each) on the
    # whole sequence; C07_watch proves it equal to the per-version verdicts just computed - checked here on the run as well
    nums = [feat, len(seq)]
    for t in seq:
        nums += [len(t)] + [ord(c) for c in t]
    wm = ctx.run_model(["WATCH " + " ".join(f"{v:x}" for v in nums)], tag="watchseq%d" % feat)
    wverd = [int(x, 16) for x in wm[0][0].split()] if wm and wm[0] and wm[0][0].strip() else []
    per = [int(v[0].split()[0], 16) for v in verdicts]
    if wverd != per:
        violations.append({"kind": "watch-model-differs-from-check-model", "no_failing_input": True, "flag": feat, "sequence": seq,
                           "watch_model": wverd, "check_model": per})
    d = clicommon.fresh_dir(ctx, "watchdir%d" % feat)
    logf = os.path.join(ctx.work, "watch%d.out" % feat)
    f = os.path.join(d, "w.asm")
    open(f, "w").write("halt\n")
    out = open(logf, "wb")
    p = subprocess.Popen([exe, "watch", f] + (["-f", "stack"] if feat else []), cwd=d, stdout=out, stderr=subprocess.STDOUT,
                         stdin=subprocess.DEVNULL, env=dict(os.environ, NO_COLOR="1"))
    rechecks, bad, unobserved = 0, 0, 0
    try:
        time.sleep(1.2)
        for k, text in enumerate(seq):
            before = os.path.getsize(logf)
            got = ""
            for attempt in range(3):
                with open(f, "w", encoding="utf-8") as fh:       # in place: the watcher follows the inode
                    fh.write(text)
                stable = 0
                for _ in range(100):
                    time.sleep(0.1)
                    now = open(logf, "rb").read()[before:].decode(errors="replace")
                    tail = now.split("Re-checking")[-1] if "Re-checking" in now else ""
                    decided = any(mk in tail for mk in VERDICT_MARKS)
                    stable = stable + 1 if (now == got and decided) else 0
                    got = now
                    if stable >= 4 or ("Re-checking" not in now and _ >= 40):
                        break
                if "Re-checking" in got:
                    break
            me = int(verdicts[k][0].split()[0], 16)
            if "Re-checking" not in got:
                if p.poll() is not None:          # the watcher itself is gone: it will never give this verdict
                    bad += 1
                    violations.append({"kind": "watch-recheck-disagrees", "position_in_sequence": k, "sequence": seq[: k + 1], "flag": feat,
                                       "source": text, "watch_output": "watch process ended with status %r: %s" % (p.returncode, got[-300:]),
                                       "model_exit": me})
                    break
                unobserved += 1
                continue
            last = got.split("Re-checking")[-1]
            if not any(mk in last for mk in VERDICT_MARKS):
                if p.poll() is None:              # announced, no verdict within 10 s, watcher alive: a slow machine, not a verdict
                    unobserved += 1
                    continue
            rechecks += 1
            ok = "no errors found" in last
            if ok != (me == 0) or "panicked" in last:
                bad += 1
                violations.append({"kind": "watch-recheck-disagrees", "position_in_sequence": k, "sequence": seq[: k + 1], "flag": feat,
                                   "source": text, "watch_output": last[-400:], "model_exit": me})
    finally:
        p.kill(); p.wait(); out.close()
    return {"rechecks": rechecks, "disagreements": bad, "sequence_length": len(seq), "flag": feat, "no_event_observed": unobserved,
            "watch_model_equals_check_model": wverd == per}


def replay(ctx, payload):
    log(str({k: payload.get(k) for k in ("kind", "source", "check_exit", "compile_exit", "run_exit", "model_exit")}))
    if payload.get("kind") == "watch-recheck-disagrees" and payload.get("sequence"):
        exe, out = core.build_lace_cli()
        if exe is None:
            log(out[-2000:])
            return 2
        v = []
        r = drive_watch(ctx, exe, [], [], v, seq=payload["sequence"], feat=payload.get("flag", 0))
        log(f"re-driven `lace watch` through the recorded sequence: {r}")
        for x in v:
            log(f"  re-check {x['position_in_sequence']} disagrees: model exit {x['model_exit']}, watch said: {x['watch_output'][-160:]!r}")
        return 1 if v else 0
    log("re-run ./lv check C07 to re-evaluate; the payload holds the source and both sides' verdicts")
    return 1
