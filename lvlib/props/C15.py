"""C15 — eval executes the instruction it is given, here and now."""
import random
import dbggen, dbgcommon

# observations the property does not speak about: a difference in these alone breaks the correspondence
# but is not an input on which the property fails (reported with no-failing-input-found)
AUX = ('cmds differs',)

ASSUMPTIONS = [
    "literal PC-relative offsets and the link value written by JSR/JSRR/CALL are left unspecified by the property; they are compared with the model only (which transcribes the code), never against the ISA",
]

SRC = """start   add r0 r0 #1
        add r1 r1 #2
v       .fill x1234
w       .fill x5678
p       .fill x3002
        add r2 r2 #3
later   .fill xABCD
        halt
"""
SRC_HIGH = ".orig x9000\n" + SRC.replace("x3002", "x9002")

FORMS = ["add r{a} r{b} r{c}", "add r{a} r{b} #{i}", "and r{a} r{b} r{c}", "and r{a} r{b} #{i}", "not r{a} r{b}",
         "ld r{a} {l}", "ldi r{a} p", "lea r{a} {l}", "st r{a} {l}", "sti r{a} p", "ldr r{a} r{b} #{o}", "str r{a} r{b} #{o}",
         "jmp r{a}", "ret", "jsrr r{a}", "jsr {l}", "putn", "out", "reg", "puts", "push r{a}", "pop r{a}", "call {l}", "rets",
         "LD R{a}, {l}", "Add r{a}, r{b}, #{i}"]
BAD = ["br start", "brnzp later", "brz v", "rti", "halt", "trap x25", "trap x99", "trap x0", "trap xFF", "trap x1F", "trap x28",
       "add r1 r1 r1 r1", "add r1 r1", "add", "not r1", "ld r1", "ld r1 v w", "ldr r1 r2", "jmp", "jmp r1 r2", "ret r1",
       ".fill x1", ".blkw #2", ".stringz \"a\"", ".orig x3000", ".break", "halt halt", "add r1 r1 #1 add r2 r2 #2", "v", "x12",
       "#5", "\"s\"", "r1", "ld r1 nolabel", "add r1 r1 #16", "ldr r1 r2 #32", "ld r1 #300", "`", "é", "push", "putn putn"]


def gen(tier, seed):
    rnd = random.Random(seed)
    specs = []
    tail = [("registers",), ("print", ("mem", ("label", "v", 0))), ("print", ("mem", ("label", "w", 0))),
            ("print", ("mem", ("label", "later", 0))), ("exit",)]
    n = 1500 if tier == "quick" else 120000
    for i in range(n):
        src = SRC if i % 3 else SRC_HIGH
        orig = dbggen.origin_of(src)
        feat = rnd.randrange(2)
        pre = []
        k = rnd.randrange(4)
        if k == 1:
            pre = [("stepinto", rnd.choice([1, 2]))]
        elif k == 2:
            pre = [("goto", ("addr", orig + rnd.randrange(0, 8)))]
        elif k == 3:
            pre = [("move", ("reg", rnd.randrange(8)), rnd.choice([0, 1, 0x7FFF, 0x8000, 0xFFFF, orig + 2, orig + 6]))]
        if rnd.random() < 0.3:
            pre.append(("move", ("reg", rnd.randrange(8)), rnd.choice([orig + 2, orig + 3, orig + 6, 0xFDFF, rnd.randrange(65536)])))
        text = rnd.choice(FORMS).format(a=rnd.randrange(8), b=rnd.randrange(8), c=rnd.randrange(8),
                                        i=rnd.randrange(-16, 16), o=rnd.randrange(-32, 32),
                                        l=rnd.choice(["v", "w", "later", "start", "p"]))
        if rnd.random() < 0.25:
            text = rnd.choice(BAD)
        evals = [("eval", text)]
        if rnd.random() < 0.3:
            evals.append(("eval", rnd.choice(FORMS + BAD).format(a=1, b=2, c=3, i=-1, o=1, l="later")))
        inp = []
        specs.append(("eval", feat, src, inp, pre + evals + tail))
    # a COMPLETE instruction followed by surplus text - text that lexes (another operand, another instruction, a directive)
    # and text on which the lexer itself fails (literal out of range, unknown character, unterminated string, unknown
    # directive, an extension mnemonic without the flag): every such line is refused, with no effect
    surplus = ["r1", "#1", "x10", "v", "add r2 r2 #1", ".end", ".fill x1", "halt", "#99999", "x12345", "$oops", "\"abc", ".bogus",
               "push r1", "rets", "`", "\u00e9", "#-32769", "0x", "#", "r8x"]
    complete = ["add r0 r0 #5", "not r1 r0", "st r0 v", "add r0 r0 r0", "jmp r1", "ld r3 w", "lea r4 later", "putn", "and r5 r5 #0",
                "str r1 r2 #1", "ret"]
    for c in complete:
        for x in surplus:
            for feat in (0, 1):
                specs.append(("surplus", feat, SRC, [], [("move", ("reg", 1), 0x3003), ("move", ("reg", 2), 0x3002), ("eval", c + " " + x)] + tail))
    # label operands at the very edge of each PC-relative field: the label exactly 2^(n-1) behind / 2^(n-1)-1 ahead of the
    # incremented PC (accepted: the field's extreme values), one beyond (refused, no effect) - from every PC around that point
    for orig in (0x3000, 0x9000):
        far = (".orig x%X\n" % orig) + "first .fill x1234\nsecond .fill x0042\n.blkw #1100\nlast .fill x0777\nhalt\n"
        last = orig + 1102
        ftail = [("registers",), ("print", ("mem", ("label", "first", 0))), ("print", ("mem", ("label", "second", 0))),
                 ("print", ("mem", ("label", "last", 0))), ("exit",)]
        for form, bits, feat in (("ld r0 {l}", 9, 0), ("ldi r1 {l}", 9, 0), ("lea r2 {l}", 9, 0), ("st r3 {l}", 9, 0), ("sti r4 {l}", 9, 0),
                                 ("jsr {l}", 11, 0), ("call {l}", 10, 1)):
            lim = 1 << (bits - 1)
            for k in (-3, -2, -1, 0, 1, 2):
                for lab, pc in (("first", orig + lim + k), ("second", orig + 1 + lim + k), ("last", last - lim + k)):
                    specs.append(("label-distance", feat, far, [], [("move", ("reg", 3), 0x5A5A), ("move", ("reg", 4), 0x00A5), ("goto", ("addr", pc)),
                                                                    ("eval", form.format(l=lab))] + ftail))
    for text in BAD + [f.format(a=1, b=2, c=3, i=5, o=-2, l="later") for f in FORMS]:
        for pre in ([], [("stepinto", 2)], [("goto", ("addr", 0x3005))]):
            for feat in (0, 1):
                specs.append(("corpus", feat, SRC, [], pre + [("eval", text)] + tail))
    return rnd, specs


def correspondence(ctx, violations, known_hits):
    rnd, specs = gen(ctx.tier, ctx.seed)
    cases, tags = dbgcommon.make_cases(rnd, specs)
    profiles = ("debug",) if ctx.tier == "quick" else ("debug", "release")
    r = dbgcommon.run_dbg_cases(ctx, cases, tags, violations, profiles, aux=AUX,
                                note="model: eval = execute(emit for the current PC) (C15_eval), label = the label's address wherever PC is (C15_label)")
    ctx.cleanup()
    return dbgcommon.coverage(r,
        "every instruction form (register/immediate/base+offset/label operands, traps, stack instructions, mixed case and commas) x "
        "random operand values x machine states prepared by move/step/goto x every current PC (origin, after stepping, after goto) x "
        "labels before and after the PC, at origins x3000 and x9000, both feature settings; malformed: missing, surplus, wrong-kind "
        "operands, directives, two instructions, label operands exactly at, inside and beyond the reach of each 9-/10-/11-bit field in both directions,  off-limits instructions (BR*, RTI, HALT, unknown traps), out-of-range literals; "
        "after each: registers + the data words + exit, full machine comparison", profiles)


def replay(ctx, payload):
    return dbgcommon.replay_dbg(ctx, payload)
