"""C17 — the debugger's view of source and symbols matches the assembler's."""
import random
import dbggen, dbgcommon

# observations the property does not speak about: a difference in these alone breaks the correspondence
# but is not an input on which the property fails (reported with no-failing-input-found)
AUX = ('cmds differs',)

ASSUMPTIONS = [
    "`assembly` output is observed in --minimal mode (the statement's text); the fancy context rendering of the non-minimal mode is miette's and not modelled",
    "label names avoid spellings the command language reads as numbers or as a register (x1, b1, o7, r3); register-LIKE labels (r10, R00, r8, r1a, r77x) are included",
]

PROGS = [
    "halt\n",
    "ret\nhalt\n",
    "start   add r0, r0, #1   ; comment\n        halt\n",
    "first: add r0 r0 #1\nsecond: halt\nthird:\n  .fill x1234\n",
    "lea r0 msg\nputs\nhalt\nmsg .stringz \"hey\"\nafter .fill #7\n",
    "main ld r0 tbl\nhalt\ntbl .blkw #3\nend_ .fill xFFFF\n",
    ".orig x4000\nalpha add r1,r1,r1\nbeta  and r2 , r2 , #0 ; é日本 😀\ngamma halt\n",
    ".orig x9000\nhigh add r0 r0 #1\nhigher halt\n",
    "; header comment\n\n  first_  add r0\n    r0\n    #1\n  ret\n  halt\n",
    "add r0 r0 #1\n.break\nmid add r0 r0 #2\n.orig x3100\nlast_ halt\n",
    "s .stringz \"a;b é\"\nt .stringz \"\"\nu halt\n",
    "ADD R0 R0 #1\nPuts\nHALT\n",
    "l_one jsr l_two\nhalt\nl_two ret\n",
    "\tadd\tr0\tr0\t#1\r\n\thalt\r\n",
    # labels that LOOK like a register followed by more (only r0..r7 alone are registers, for assembler and debugger alike)
    # labels differing only in letter case are different symbols, for the assembler and the debugger alike
    "lea r0 Cell\nld r1 CELL\nhalt\nCell .fill x11\nCELL .fill x22\ncell .fill x33\ncELL halt\n",
    # every punctuation character a statement's text can hold (inside string literals): shown exactly as written
    "lea r0 brace\nputs\nhalt\nbrace .stringz \"a{b\"\nfmt .stringz \"{r0} = {1;2m}x\"\nclose_ .stringz \"}{ }\"\npunct .stringz \"100% [ok] <x> $y #z @w &v *u (t) ~s ^q |p !o ?n 'm `l\"\nlast2 halt\n",
    # labels FAR behind the origin (index above 32,767) and sums of index and offset beyond 16-bit signed range
    "near add r0 r0 #1\nhalt\nhuge .blkw x8000\nfar_ add r0 r0 #2\nfarther halt\n",
    ".orig x0100\nnear2 halt\nhuge2 .blkw xC000\nfar2 add r1 r1 #1\nhalt\n",
    "lea r0 r10\nputs\nld r1 r25\nhalt\nr10 .stringz \"hi\"\nr25 .fill x1234\nR00 add r1 r1 #1\nr8 halt\nr1a halt\nr77x halt\nr0_ halt\n",
]
LABELS = ["start", "first", "second", "third", "msg", "after", "main", "tbl", "end_", "alpha", "beta", "gamma", "high", "higher",
          "first_", "mid", "last_", "s", "t", "u", "l_one", "l_two", "nothere", "Start",
          "r10", "r25", "R00", "r8", "r1a", "r77x", "r0_", "Cell", "CELL", "cell", "cELL", "celL", "CeLL",
          "brace", "fmt", "close_", "punct", "last2", "near", "huge", "far_", "farther", "near2", "huge2", "far2"]


def gen(tier, seed):
    rnd = random.Random(seed)
    specs = []
    for src in PROGS:
        orig = dbggen.origin_of(src)
        cmds = []
        for a in range(orig - 1, orig + 14):
            cmds.append(("assembly", ("addr", a & 0xFFFF)))
        for name in LABELS:
            cmds.append(("print", ("mem", ("label", name, 0))))
            cmds.append(("assembly", ("label", name, 0)))
            cmds.append(("goto", ("label", name, 0)))
            cmds.append(("registers",))
            cmds.append(("assembly", ("label", name, 1)))
            cmds.append(("assembly", ("label", name, -1)))
        cmds.append(("assembly", ("pcoff", 0)))
        cmds.append(("breaklist",))
        cmds.append(("exit",))
        specs.append(("fixed", 0, src, [], cmds))
        # the same labels with offsets at the ends of the 16-bit signed range and around the program's size
        big = []
        for name in LABELS[-12:] + LABELS[:4]:
            for off in (32767, -32768, 32766, 16384, -16384, 0x7000):
                big += [("assembly", ("label", name, off)), ("print", ("mem", ("label", name, off))), ("goto", ("label", name, off)), ("breakadd", ("label", name, off))]
        specs.append(("big-offsets", 0, src, [], big + [("registers",), ("breaklist",), ("exit",)]))
        # the same view later in a session: after stepping, eval, move, reset, repeated
        for pre in ([("stepinto", 2)], [("reset",)], [("stepinto", 1), ("reset",)], [("eval", "add r0 r0 #1")],
                    [("move", ("reg", 1), 5), ("reset",), ("reset",)], [("continue",)], [("continue",), ("reset",)]):
            cm = list(pre)
            for name in LABELS[:12]:
                cm += [("assembly", ("label", name, 0)), ("print", ("mem", ("label", name, 0))), ("breakadd", ("label", name, 0))]
            cm += [("assembly", ("addr", orig)), ("assembly", ("addr", orig + 1)), ("breaklist",), ("exit",)]
            specs.append(("later-in-session", 0, src, [], cm))
    import asmgen
    n = 250 if tier == "quick" else 30000
    for i in range(n):
        items = asmgen.gen_program(rnd, stack=False, nstmts=rnd.choice([1, 2, 4, 7]))
        # keep only label names the debugger reads as labels
        safe = {}
        def rename(nm):
            if nm not in safe:
                safe[nm] = "L_%d" % len(safe)
            return safe[nm]
        items2 = []
        for it in items:
            if it[0] == "label":
                items2.append(("label", rename(it[1])))
            elif it[0] == "stmt":
                ops = [("lab", rename(o[1])) if o[0] == "lab" else o for o in it[2]]
                items2.append(("stmt", it[1], ops))
            else:
                items2.append(it)
        src = asmgen.render(rnd, items2, style=rnd.choice(["random", "commas", "comments", "plain"]))
        orig = 0x3000
        for it in items2:
            if it[0] == "orig":
                orig = it[1]
        cmds = [("assembly", ("addr", (orig + k) & 0xFFFF)) for k in range(-1, 12)]
        for nm in list(safe.values())[:6]:
            cmds += [("goto", ("label", nm, 0)), ("registers",), ("assembly", ("label", nm, 0)), ("print", ("mem", ("label", nm, rnd.randrange(-2, 3))))]
        cmds.append(("exit",))
        specs.append(("random", 0, src, [], cmds))
    return rnd, specs


def correspondence(ctx, violations, known_hits):
    rnd, specs = gen(ctx.tier, ctx.seed)
    cases, tags = dbgcommon.make_cases(rnd, specs)
    profiles = ("debug",)
    r = dbgcommon.run_dbg_cases(ctx, cases, tags, violations, profiles, aux=AUX,
                                note="model: assembly shows the slice of the parser's span for that address (C17_assembly); labels resolve to origin + line - 1 (C17_label)")
    real = dbgcommon.cli_cross(ctx, specs, violations, limit=(30 if ctx.tier == "quick" else 600))
    r["evaluations"] += real.get("sessions", 0)
    ctx.cleanup()
    return dbgcommon.coverage(r,
        "fixed programs (first statement at byte 0 without operands, operand-less after operand-ful, .stringz/.blkw/.fill incl. empty "
        "string, labels with and without colon, commas and comments between operands, operands on following lines, CRLF and tabs, "
        "multi-byte characters in comments and strings, origins x3000/x4000/x9000, .break and .orig interleaved, upper case) and "
        "random programs in random layouts: `assembly` for every address from origin-1 past the end, and for every label: print, "
        "assembly, goto + registers, label+1, label-1; compared: every output line and the machine", profiles, real_binary_without_hooks=real)


def replay(ctx, payload):
    return dbgcommon.replay_dbg(ctx, payload)
