"""C13 — debugger writes are confined to user space and to the named target."""
import random
import dbggen, dbgcommon

# observations the property does not speak about: a difference in these alone breaks the correspondence
# but is not an input on which the property fails (reported with no-failing-input-found)
AUX = ('cmds differs',)

ASSUMPTIONS = ["the machine and breakpoint list after `<command>; registers; break list; exit` are compared completely (all 65,536 words) with the model, which is proved to change only the named target"]

BOUNDARY = [0, 1, 0x2FFF, 0x3000, 0x3001, 0x7FFF, 0x8000, 0x8001, 0xFDFE, 0xFDFF, 0xFE00, 0xFE01, 0xFFFE, 0xFFFF]
SRC = {
    0x3000: "start add r0 r0 #1\nmid add r0 r0 #1\nadd r0 r0 #1\nlast halt\n",
    0x8000: ".orig x8000\nstart add r0 r0 #1\nmid add r0 r0 #1\nadd r0 r0 #1\nlast halt\n",
    0xFD00: ".orig xFD00\nstart add r0 r0 #1\nmid add r0 r0 #1\nadd r0 r0 #1\nlast halt\n",
    0x0000: ".orig x0\nstart add r0 r0 #1\nmid add r0 r0 #1\nadd r0 r0 #1\nlast halt\n",
    # an image that runs past xFE00, with preset breakpoints (`.break`) on statements OUTSIDE user space
    # origins at and beyond xFE00: the user range [origin, xFE00) is EMPTY, every target is refused
    0xFE00: ".orig xFE00\nstart add r0 r0 #1\nmid add r0 r0 #1\nadd r0 r0 #1\nlast halt\n",
    0xFE10: ".orig xFE10\nstart add r0 r0 #1\nmid add r0 r0 #1\nadd r0 r0 #1\nlast halt\n",
    0xFFF0: ".orig xFFF0\nstart add r0 r0 #1\nmid add r0 r0 #1\nadd r0 r0 #1\nlast halt\n",
    0xFDFC: ".orig xFDFC\nstart add r0 r0 #1\nmid add r0 r0 #1\nadd r0 r0 #1\nlast halt\n.break\ndev add r0 r0 #1\n.break\nhalt\n",
}


def targets(tier, rnd):
    if tier == "quick":
        return BOUNDARY + [rnd.randrange(65536) for _ in range(30)]
    return list(range(0, 65536, 1))


def gen(tier, seed):
    rnd = random.Random(seed)
    specs = []
    tail = [("registers",), ("breaklist",), ("exit",)]
    for orig, src in SRC.items():
        if tier != "quick" and orig not in (0x3000, 0x8000):
            tg = BOUNDARY
        else:
            tg = targets(tier, rnd) if orig == 0x3000 or tier == "quick" else BOUNDARY + list(range(0, 65536, 257))
        tg = list(tg) + [(orig + k) & 0xFFFF for k in (-2, -1, 0, 1, 3, 4, 5)] + ([0x4000, 0x0100] if orig >= 0xFE00 else [])
        for a in tg:
            # three spellings of the same target: absolute, label +- offset, ^offset (when the offset fits 16 bits)
            spell = [("addr", a)]
            for base_name, base in (("start", orig), ("last", orig + 3)):
                d = a - base
                if -32768 <= d <= 32767:
                    spell.append(("label", base_name, d))
            for pc in (orig, orig + 2):
                d = a - pc
                if -32768 <= d <= 32767:
                    spell.append(("pc", pc, d))
            for sp in spell:
                pre = []
                m = sp
                if sp[0] == "pc":
                    pre = [("goto", ("addr", sp[1]))]
                    m = ("pcoff", sp[2])
                for cmd in (("goto", m), ("move", ("mem", m), 0x4242), ("breakadd", m), ("breakremove", m)):
                    if tier == "quick" or cmd[0] in ("goto", "move"):
                        specs.append((cmd[0] + ":" + sp[0], 0, src, [], pre + [("breakadd", ("addr", orig + 1)), cmd] + tail))
    # offsets that overflow 16 bits: extremes from PCs / labels at high addresses
    for orig in (0x8000, 0xFD00, 0x3000, 0x0000, 0xFDFC):
        for pc in (orig, orig + 2, orig + 3):
            for off in (0x7FFF, 0x7FFE, -0x8000, -0x7FFF, 0x4000, -0x4000, 1, -1, -2, -3, -4, -5, -100, 2, 3, 0x200, -0x200):
                for cmd in ("goto", "move", "breakadd", "breakremove", "print", "assembly"):
                    m = ("pcoff", off)
                    c = (cmd, ("mem", m), 0x4242) if cmd == "move" else ((cmd, ("mem", m)) if cmd == "print" else (cmd, m))
                    specs.append(("overflow:" + cmd, 0, SRC[orig], [], [("goto", ("addr", pc)), c] + tail))
                    lm = ("label", "last", off)
                    c = (cmd, ("mem", lm), 0x4242) if cmd == "move" else ((cmd, ("mem", lm)) if cmd == "print" else (cmd, lm))
                    specs.append(("overflow-label:" + cmd, 0, SRC[orig], [], [c] + tail))
    # the PC itself outside user space (put there by `eval jmp`): ^offsets from it, zero offset included, must be
    # refused exactly when PC + offset is outside [origin, xFE00)
    for orig in (0x3000, 0x8000, 0xFD00, 0x0000):
        outs = [0, 0x200, (orig - 1) & 0xFFFF, (orig - 2) & 0xFFFF, 0xFE00, 0xFE04, 0xFFFF, 0xFFFE, orig, orig + 3, orig + 4, 0xFDFF]
        for x in sorted(set(outs)):
            for off in (0, 1, -1, 2, -2, 0x100, -0x100):
                for cmd in ("goto", "move", "breakadd", "breakremove", "print", "assembly"):
                    m = ("pcoff", off)
                    c = (cmd, ("mem", m), 0x4242) if cmd == "move" else ((cmd, ("mem", m)) if cmd == "print" else (cmd, m))
                    if tier == "quick" and off not in (0, 1, -1) and cmd in ("print", "assembly"):
                        continue
                    specs.append(("pc-outside:" + cmd, 0, SRC[orig], [],
                                  [("move", ("reg", 0), x), ("eval", "jmp r0"), c] + tail))
    # labels that differ only in letter case name DIFFERENT words: the command must act on the one it names (and a spelling
    # that no label has must be refused), whatever the iteration order of the symbol table
    src_case, _ = dbggen.p_case_labels(rnd)
    for name in ("Cell", "CELL", "cell", "cELL", "celL", "CeLL", "ceLL"):
        for off in (0, 1, -1):
            m = ("label", name, off)
            for cmd in (("goto", m), ("move", ("mem", m), 0x4242), ("breakadd", m), ("breakremove", m), ("print", ("mem", m)), ("assembly", m)):
                specs.append(("case-labels:" + cmd[0], 0, src_case, [], [("breakadd", ("label", "CELL", 0)), ("breakadd", ("label", "cell", 0)), cmd] + tail))
    # registers and values
    for r in range(8):
        for v in (0, 1, 0x7FFF, 0x8000, 0xFFFF, rnd.randrange(65536)):
            specs.append(("move-reg", 0, SRC[0x3000], [], [("move", ("reg", r), v)] + tail))
    # inspection commands on arbitrary states
    for i in range(200 if tier == "quick" else 3000):
        p = dbggen.PROGRAMS[i % len(dbggen.PROGRAMS)]
        src, feat = p(rnd)
        cmds = dbggen.gen_script(rnd, ["print", "registers", "assembly", "breaklist", "stepinto"], dbggen.origin_of(src), 12, maxlen=10, end="exit")
        specs.append(("inspect:" + p.__name__, feat, src, [], cmds))
    return rnd, specs


def correspondence(ctx, violations, known_hits):
    rnd, specs = gen(ctx.tier, ctx.seed)
    cases, tags = dbgcommon.make_cases(rnd, specs)
    profiles = ("debug",)
    r = dbgcommon.run_dbg_cases(ctx, cases, tags, violations, profiles, aux=AUX,
                                note="model: writes outside [origin, xFE00) are refused and change nothing (C13_refuse); sums are formed without wrap (C13_no_wrap)")
    real = dbgcommon.cli_cross(ctx, specs, violations, limit=(30 if ctx.tier == "quick" else 600))
    r["evaluations"] += real.get("sessions", 0)
    # offsets and addresses written as TEXT, beyond what a 16-bit pattern can encode: label+N / ^N / absolute N around
    # 2^15, 2^16 and 2^31 in several radixes must be refused (or accepted) exactly as the grammar and the range rule say
    sessions = []
    tail_txt = "; registers; break list; exit"
    bigs = [32766, 32767, 32768, 32769, 65531, 65532, 65533, 65534, 65535, 65536, 65537, 70000, 2147483647, 2147483648]
    for orig in (0x3000, 0x0000, 0xFD00):
        src = SRC[orig]
        for n in bigs:
            for sgn in ("+", "-"):
                for sp in (str(n), "x%x" % n, "#%d" % n):
                    for lab in ("start", "last", "mid"):
                        for cmd in (["goto %s", "move %s x4242", "break add %s", "break remove %s"] if ctx.tier != "quick" or n in (32768, 65533, 65535, 65536) else ["goto %s", "move %s x4242"]):
                            sessions.append(("label-offset-text", 0, src, [], "break add %s; " % ("x%X" % (orig + 1)) + (cmd % (lab + sgn + sp)) + tail_txt))
                    sessions.append(("pc-offset-text", 0, src, [], "goto x%X; move ^%s%s x4242" % (orig + 2, sgn, sp) + tail_txt))
                    sessions.append(("pc-offset-text", 0, src, [], "goto x%X; goto ^%s%s" % (orig + 2, sgn, sp) + tail_txt))
            sessions.append(("absolute-text", 0, src, [], "goto %d" % n + tail_txt))
            sessions.append(("absolute-text", 0, src, [], "move x%x x4242" % n + tail_txt))
            sessions.append(("absolute-text", 0, src, [], "break add -%d" % n + tail_txt))
    if ctx.tier == "quick":
        random.Random(ctx.seed).shuffle(sessions)
        sessions = sessions[:2500]
    textual = dbgcommon.run_text_sessions(ctx, sessions, violations, aux=AUX,
                                          note="offsets/addresses as text around 2^15, 2^16, 2^31")
    r["evaluations"] += textual["sessions"]; r["mismatches"] += textual["mismatches"]
    ctx.cleanup()
    return dbgcommon.coverage(r,
        "target addresses (quick: the boundary set {0, origin-1, origin, x7FFF, x8000, xFDFF, xFE00, xFFFF, ...} plus random; thorough: "
        "ALL 65,536 for origin x3000 and a stride for x8000) x spellings (absolute, label +- offset from two labels, ^offset from two "
        "PCs) x {goto, move, break add, break remove} at four origins; offsets at the signed-16-bit extremes from high PCs/labels "
        "(sums beyond 16 bits); the PC itself parked outside user space (by `eval jmp`) x offsets {0, +-1, +-2, +-x100} x all six commands; all eight registers x boundary values; inspection commands on arbitrary states; after each: "
        "`registers; break list; exit` and a full comparison of machine (65,536 words) and breakpoint list", profiles,
        exhaustive=(ctx.tier != "quick"), exhaustive_over="all 65,536 goto/move targets at origin x3000 (thorough tier)", real_binary_without_hooks=real, textual_offsets=textual)


def replay(ctx, payload):
    return dbgcommon.replay_dbg(ctx, payload)
