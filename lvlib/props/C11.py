"""C11 — breakpoints always stop execution before the marked instruction."""
import itertools, random
import dbggen, dbgcommon

# observations the property does not speak about: a difference in these alone breaks the correspondence
# but is not an input on which the property fails (reported with no-failing-input-found)
AUX = ('cmds differs',)

ASSUMPTIONS = ["pause points are observed with `registers` after every resuming command and the breakpoint list with `break list` / the attached debugger's list at `exit`"]

STMTS = ["add r0 r0 #1", "add r1 r1 #2", "and r2 r2 #0", "not r3 r3", "add r0 r0 #1", "add r4 r4 #-1"]


def placements(tier):
    """Every placement of .break (incl. doubled and after the last statement) in programs of <= 4 (thorough: 6) statements."""
    out = []
    nmax = 4 if tier == "quick" else 6
    for n in range(1, nmax + 1):
        for mask in range(1 << (n + 1)):
            if tier == "quick" and bin(mask).count("1") > 3:
                continue
            lines = []
            for i in range(n):
                if mask >> i & 1:
                    lines.append(".break")
                    if (mask >> i & 3) == 3 and i % 2 == 0:
                        lines.append(".break")                     # doubled
                lines.append(("L%d " % i if i % 2 else "") + STMTS[i])
            if mask >> n & 1:
                lines.append("end_lbl .break" if n % 2 else ".break")
            lines.insert(0, "")
            src = "\n".join(lines) + "\nhalt\n" if not (mask >> n & 1) else "\n".join(lines[:-1] + ["halt"] + lines[-1:]) + "\n"
            out.append(src)
            # the same placement at another origin, and with one more .break written BEFORE the .orig line
            # (it marks the first word of the program, wherever the program is loaded)
            if n <= (2 if tier == "quick" else 4):
                for o in ("x4000", "x0200", "xFDF0", "x3000", "x0001", "x0002"):     # incl. origins SMALLER than the number of statements
                    out.append(".orig " + o + src)
                    out.append(".break\n.orig " + o + src)
                    out.append("first .break\n.break\n.orig " + o + src)
    return out


def gen(tier, seed):
    rnd = random.Random(seed)
    specs = []
    resumes = [("continue",), ("step",), ("stepinto", 2), ("stepinto", 100)]
    for src in placements(tier):
        for res in resumes:
            cmds = []
            for _ in range(5):
                cmds += [res, ("registers",)]
            specs.append(("placement", 0, src, [], [("breaklist",)] + cmds + [("breaklist",), ("exit",)]))
    # run-time add/remove by absolute address, label +- offset, ^offset; loops revisiting the breakpoint
    loops = [dbggen.p_countdown, dbggen.p_selfloop, dbggen.p_call_rets, dbggen.p_nested_jsr, dbggen.p_breaks]
    n = 800 if tier == "quick" else 60000
    for i in range(n):
        p = loops[i % len(loops)]
        src, feat = p(rnd)
        orig = dbggen.origin_of(src)
        cmds = []
        for _ in range(rnd.randrange(1, 7)):
            k = rnd.choice(["breakadd", "breakadd", "breakremove", "breaklist"])
            cmds.append(dbggen.gen_command(rnd, k, orig, 10))
        for _ in range(rnd.randrange(1, 8)):
            cmds.append(rnd.choice([("continue",), ("continue",), ("step",), ("stepout",), ("stepinto", rnd.choice([1, 3, 50]))]))
            cmds.append(("registers",))
            if rnd.random() < 0.3:
                cmds.append(dbggen.gen_command(rnd, rnd.choice(["breakadd", "breakremove", "goto"]), orig, 10))
        cmds += [("breaklist",), ("exit",)]
        specs.append(("runtime:" + p.__name__, rnd.choice([feat, 1]), src, [], cmds))
    # the breakpoint list belongs to the SESSION, not to the machine: `reset` (and eval, move, goto) leaves it alone - a `.break`
    # removed at run time stays silent and an added breakpoint keeps firing after the machine went back to its initial state
    src_b, _ = dbggen.p_breaks(rnd)
    ob = dbggen.origin_of(src_b)
    for pre in ([("continue",)], [], [("stepinto", 2)]):
        for edit in ([("breakremove", ("addr", ob + k))] for k in range(0, 7)):
            for add in ([], [("breakadd", ("addr", ob + 1))], [("breakadd", ("addr", ob + 4))]):
                for mid in ([("reset",)], [("reset",), ("reset",)], [("eval", "add r0 r0 #1"), ("reset",)], [("goto", ("addr", ob)), ("reset",)]):
                    cmds = list(pre) + edit + add + mid + [("breaklist",)]
                    for _ in range(4):
                        cmds += [("continue",), ("registers",)]
                    specs.append(("reset-keeps-list", 0, src_b, [], cmds + [("breaklist",), ("exit",)]))
    # labels differing only in letter case mark DIFFERENT statements: a breakpoint given by label lands on, and is removed from,
    # the statement that label marks
    twins = "        and r0 r0 #0\nstop    add r0 r0 #1\n        add r0 r0 #1\nSTOP    add r0 r0 #1\nStop    add r0 r0 #1\n        halt\n"
    for name in ("stop", "STOP", "Stop", "sTOP", "stoP"):
        for other in ("stop", "STOP", "Stop"):
            specs.append(("case-twins", 0, twins, [], [("breakadd", ("label", name, 0)), ("breaklist",), ("continue",), ("registers",),
                                                       ("breakadd", ("label", other, 0)), ("breakremove", ("label", name, 0)), ("breaklist",),
                                                       ("continue",), ("registers",), ("continue",), ("registers",), ("exit",)]))
    # the stale-breakpoint witness (F12) and the one-instruction self loop
    specs.append(("corpus", 0, "add r0 r0 #1\nadd r0 r0 #1\nadd r0 r0 #1\nadd r0 r0 #1\nhalt\n", [],
                  [("breakadd", ("addr", 0x3002)), ("continue",), ("registers",), ("goto", ("addr", 0x3001)), ("continue",), ("registers",), ("exit",)]))
    specs.append(("corpus", 0, "and r0 r0 #0\nadd r0 r0 #1\nspin brp spin\nhalt\n", [],
                  [("breakadd", ("label", "spin", 0)), ("continue",), ("registers",), ("continue",), ("registers",), ("continue",), ("registers",), ("exit",)]))
    # a breakpoint on EVERY address of the subroutine programs (the RET / RETS / JSR / CALL words among them) and every way of
    # running into it: from every point of the run, with `step out`, `step` and `continue`
    for p in (dbggen.p_call_rets, dbggen.p_nested_jsr, dbggen.p_return_other_reg):
        for s7 in (0, 1, 3):
            src, feat0 = p(random.Random(s7))
            orig = dbggen.origin_of(src)
            for feat in sorted({feat0, 1}):
                for a in range(orig, orig + dbggen.nwords(src)):
                    for k in range(0, 9):
                        pre = [("stepinto", k)] if k else []
                        for res in (("stepout",), ("step",), ("continue",)):
                            specs.append(("break-everywhere:" + p.__name__, feat, src, [], [("breakadd", ("addr", a))] + pre + [res, ("registers",), res, ("registers",), ("exit",)]))
    return rnd, specs


def correspondence(ctx, violations, known_hits):
    rnd, specs = gen(ctx.tier, ctx.seed)
    cases, tags = dbgcommon.make_cases(rnd, specs)
    profiles = ("debug",)

    def sorted_check(ci, a, b):
        f, _ = dbgcommon.impl_fields(a)
        if f and f["bps"]:
            addrs = f["bps"][0::2]
            if addrs != sorted(set(addrs)):
                return "implementation's breakpoint list is not sorted / has duplicates"
        return None

    r = dbgcommon.run_dbg_cases(ctx, cases, tags, violations, profiles, aux=AUX, extra=sorted_check,
                                note="model: a breakpoint at PC pauses before execution on every arrival (C11_fires); list sorted and duplicate-free (C11_sorted)")
    real = dbgcommon.cli_cross(ctx, specs, violations, limit=(30 if ctx.tier == "quick" else 600))
    r["evaluations"] += real.get("sessions", 0)
    ctx.cleanup()
    return dbgcommon.coverage(r,
        "EXHAUSTIVE placements of .break (before the first statement, between any two, after the last, doubled, with a label) in "
        "programs of <= 4 (thorough: 6) statements x every resuming command, observing `registers` at each pause and `break list`; "
        "run-time add/remove by absolute address, label +- offset and ^offset on loops that revisit the breakpoint, PC moved by goto "
        "between pause and resume; run-time removals of `.break` addresses and additions followed by `reset` (once, twice, after eval / goto) and further resuming; the implementation's final list is additionally checked to be sorted and duplicate-free", profiles,
        exhaustive=True, exhaustive_over=".break placements in programs up to the stated size", real_binary_without_hooks=real)


def replay(ctx, payload):
    return dbgcommon.replay_dbg(ctx, payload)
