"""dbggen.py — programs and command scripts for the debugger properties (C09-C13, C15-C17).

A command is a tuple; `render` gives the text the implementation reads, `encode` the numbers the
model reads (see DriverDbg.v)."""
import random

# ---------------------------------------------------------------- programs (assembly text)

def p_countdown(rnd):
    n = rnd.randrange(1, 6)
    return f"""        and r0 r0 #0
        add r0 r0 #{n}
        and r1 r1 #0
loop    add r1 r1 r0
        add r0 r0 #-1
        brp loop
        add r0 r1 #0
        putn
        halt
""", 0


def p_nested_jsr(rnd):
    return """main    ld r0 val
        jsr fn
        out
        halt
val     .fill x41
fn      st r7 save
        jsr gn
        ld r7 save
        ret
save    .fill #0
gn      add r0 r0 #1
        ret
""", 0


def p_call_rets(rnd):
    n = rnd.randrange(1, 4)
    return f"""        and r0 r0 #0
        add r0 r0 #{n}
        call fn
        reg
        halt
fn      add r0 r0 #0
        brz done
        add r0 r0 #-1
        call fn
done    rets
""", 1


def p_push_pop(rnd):
    return """        add r1 r1 #7
        push r1
        add r1 r1 #1
        call fn
        pop r2
        add r0 r2 #0
        putn
        halt
fn      push r1
        pop r3
        rets
""", 1


def p_selfmod(rnd):
    return """        ld r0 newi
        st r0 target
target  trap x80
        putn
        halt
newi    add r0 r1 #5
""", 0


def p_exception(rnd):
    dest = rnd.choice(["xFFFF", "x2000", "xFE00", "xFDFF", "x0000", "xFFFE"])
    return f"""        ld r2 dest
        add r1 r1 #1
        jmp r2
dest    .fill {dest}
""", 0


def p_halt_middle(rnd):
    return """        add r0 r0 #1
        halt
mid     add r0 r0 #2
        putn
        halt
""", 0


def p_breaks(rnd):
    o = rnd.choice([".orig x3000\n", ".orig x4000\n", "", ".orig x8000\n", ".orig xFD00\n"])
    return o + """.break
start   add r0 r0 #1
        add r0 r0 #1
.break
second  add r0 r0 #1
lbl .break
        add r0 r0 #1
.break
.break
        putn
        halt
.break
""", 0


def p_io(rnd):
    return """        getc
        out
        lea r0 msg
        puts
        in
        halt
msg     .stringz "hi"
""", 0


def p_unknown_trap(rnd):
    return """        add r0 r0 #1
        trap x99
        halt
""", 0


def p_selfloop(rnd):
    n = rnd.randrange(1, 5)
    return f"""        and r0 r0 #0
        add r0 r0 #{n}
spin    add r0 r0 #-1
        brp spin
tight   brp tight
        halt
""", 0


def p_no_halt(rnd):
    return """        add r0 r0 #3
        add r0 r0 #3
""", 0


def p_high(rnd):
    return """.orig xFDF0
        lea r0 top
        ldr r1 r0 #0
top     add r1 r1 #1
        jsr fn
        halt
fn      ret
""", 0


def p_store_outside(rnd):
    v = rnd.randrange(1, 16)
    return f"""        and r0 r0 #0
        add r1 r1 #{v}
        str r1 r0 #-1
        str r1 r0 #0
        ld r2 ptr
        str r1 r2 #0
        sti r1 ptr2
        ldr r3 r0 #-1
        add r0 r3 #0
        putn
        halt
ptr     .fill xFE00
ptr2    .fill x2FFF
""", 0


def p_call_next(rnd):
    k = rnd.randrange(3)
    if k == 0:
        return """        and r0 r0 #0
        jsr here
here    add r0 r0 #1
        add r0 r0 #1
        add r0 r0 #1
        halt
""", 0
    if k == 1:
        return """        and r0 r0 #0
        call here
here    add r0 r0 #1
        add r0 r0 #1
        add r0 r0 #1
        halt
""", 1
    return """        and r0 r0 #0
        lea r1 here
        jsrr r1
here    add r0 r0 #1
        add r0 r0 #1
        halt
""", 0


def p_call_next_loop(rnd):
    return """        and r0 r0 #0
        add r2 r2 #3
loop    jsr next
next    add r0 r0 #1
        add r2 r2 #-1
        brp loop
        halt
""", 0


def p_reg_midline(rnd):
    # REG while the output cursor is in the middle of a line (after PUTS / OUT without a newline)
    return """        lea r0 msg
        puts
        reg
        ld r0 ch
        out
        reg
        halt
msg     .stringz "R:"
ch      .fill x41
""", 0


def p_image_into_device_area(rnd):
    # the loaded image itself reaches xFE00 and beyond (non-zero load-time words above user space)
    return """.orig xFDFC
        ld r1 data
        add r1 r1 #1
        halt
        .fill x0000
data    .fill x1234
more    .fill xBEEF
""", 0


def p_selfmod_halt(rnd):
    # the program writes a HALT over an instruction ahead of the PC (and over one inside a subroutine), then reaches it
    return """        ld r0 h
        st r0 target
        add r1 r1 #1
        jsr fn
target  add r1 r1 #2
        add r1 r1 #4
        halt
fn      ld r0 h
        st r0 inner
        add r2 r2 #1
inner   add r2 r2 #2
        ret
h       .fill xF025
""", 0


def p_swap(rnd):
    # stores that PERMUTE memory or change two words by +k / -k: every order-independent summary of memory (sum, xor of
    # all words) is the same before and after, only a word-by-word restore brings the image back
    return """        ld r0 va
        ld r1 vb
        st r1 va
        st r0 vb
        lea r2 vc
        ldr r3 r2 #0
        add r3 r3 #5
        str r3 r2 #0
        ldr r3 r2 #1
        add r3 r3 #-5
        str r3 r2 #1
        ld r0 va
        out
        ld r0 vb
        out
        halt
va       .fill x0058
vb       .fill x0059
vc       .fill x0100
vd       .fill x0200
""", 0


def p_case_labels(rnd):
    # labels that differ ONLY in letter case are different labels (the assembler is case-sensitive): each names its own word
    return """        lea r0 Cell
        ld r1 CELL
        ld r2 cell
        st r2 cELL
        halt
Cell    .fill x0011
CELL    .fill x0022
cell    .fill x0033
cELL    .fill x0044
""", 0


def p_return_other_reg(rnd):
    # subroutines that come back to the address after the call WITHOUT the link register holding it: the link is kept in
    # another register / in memory and R7 is clobbered meanwhile (nested call, scratch use), or the way back is a plain branch
    k = rnd.randrange(4)
    if k == 0:
        return """main    and r1 r1 #0
        jsr fn
        add r1 r1 #1
        add r1 r1 #1
        halt
fn      add r5 r7 #0
        jsr gn
        jmp r5
gn      ret
""", 0
    if k == 1:
        return """main    and r1 r1 #0
        lea r2 fn
        jsrr r2
        add r1 r1 #1
        add r1 r1 #1
        halt
fn      st r7 save
        and r7 r7 #0
        ld r3 save
        jmp r3
save    .fill #0
""", 0
    if k == 2:
        return """main    and r1 r1 #0
        jsr fn
done    add r1 r1 #1
        add r1 r1 #1
        halt
fn      and r7 r7 #0
        add r1 r1 #4
        brnzp done
""", 0
    return """main    and r1 r1 #0
        add r6 r6 #-1
        jsr fn
        add r1 r1 #1
        jsr fn
        add r1 r1 #1
        halt
fn      str r7 r6 #0
        jsr gn
        ldr r4 r6 #0
        jmp r4
gn      add r1 r1 #2
        ret
""", 0


def p_sub_halts(rnd):
    # a subroutine that does not come back: it ends the program itself (an error exit), reached by JSR / JSRR / CALL,
    # directly or one call further down
    k = rnd.randrange(4)
    if k == 0:
        return """main    and r1 r1 #0
        jsr fn
        add r1 r1 #1
        halt
fn      add r1 r1 #2
        halt
""", 0
    if k == 1:
        return """main    lea r2 fn
        jsrr r2
        add r1 r1 #1
        halt
fn      jsr gn
        ret
gn      add r1 r1 #3
        halt
""", 0
    if k == 2:
        return """main    and r1 r1 #0
        call fn
        add r1 r1 #1
        halt
fn      add r1 r1 #2
        halt
""", 1
    return """main    ld r1 val
        brz done
        jsr fn
done    halt
val     .fill #2
fn      add r1 r1 #-1
        brp fn
        halt
""", 0


def p_selfmod_class(rnd):
    # what a word IS changes while the program runs: a HALT placeholder overwritten by an ordinary instruction, a JSR / RET / HALT
    # written at run time - the debugger must read the word that is in memory NOW
    k = rnd.randrange(3)
    if k == 0:
        return """main    ld r0 newi
        st r0 slot
        and r1 r1 #0
slot    halt
        add r1 r1 #2
        halt
newi    add r1 r1 #1
""", 0
    if k == 1:
        return """main    ld r0 jsri
        st r0 slot
        and r3 r3 #0
slot    add r3 r3 #0
        add r3 r3 #1
        halt
fn      add r3 r3 #4
        ret
jsri    jsr fn
""", 0
    return """main    ld r0 hlt
        st r0 slot
        jsr fn
        add r1 r1 #1
        halt
fn      add r1 r1 #2
slot    add r1 r1 #4
        ret
hlt     .fill xF025
""", 0


# (new templates go into PROGRAMS_LATER: the random sessions over PROGRAMS stay what they were, seed for seed)
PROGRAMS_LATER = [p_return_other_reg, p_sub_halts, p_selfmod_halt, p_selfmod_class]

PROGRAMS = [p_swap, p_case_labels, p_selfmod_halt, p_reg_midline, p_image_into_device_area, p_call_next, p_call_next_loop, p_store_outside, p_countdown, p_nested_jsr, p_call_rets, p_push_pop, p_selfmod, p_exception, p_halt_middle, p_breaks, p_io,
            p_unknown_trap, p_selfloop, p_no_halt, p_high]

LABELS = ["here", "next", "ptr", "ptr2", "loop", "main", "val", "fn", "save", "gn", "done", "target", "newi", "dest", "mid", "start", "second", "lbl",
          "msg", "spin", "tight", "top", "nolabel", "Loop", "ch", "data", "more", "h", "inner", "va", "vb", "vc", "vd", "Cell", "CELL", "cell", "cELL", "celL"]


def origin_of(text):
    for line in text.split("\n"):
        t = line.split()
        if t and t[0].lower() == ".orig":
            return int(t[1][1:], 16)
    return 0x3000

# ---------------------------------------------------------------- commands

def s16(v):
    return v & 0xFFFF


def gen_mem(rnd, orig, n):
    k = rnd.randrange(10)
    if k < 4:
        a = rnd.choice([orig + rnd.randrange(0, n + 2), orig, orig + n, orig - 1, 0xFDFF, 0xFE00, 0xFFFF, 0, 0x7FFF, 0x8000]) & 0xFFFF
        return ("addr", a)
    if k < 7:
        off = rnd.choice([0, 1, -1, 2, -2, rnd.randrange(-6, 7), 0x7FFF, -0x8000, rnd.randrange(-40000, 40000) if False else rnd.randrange(-300, 300)])
        return ("pcoff", off)
    name = rnd.choice(LABELS)
    off = rnd.choice([0, 0, 1, -1, 3, rnd.randrange(-5, 6), 0x7FFF, -0x8000])
    return ("label", name, off)


def render_mem(m):
    if m[0] == "addr":
        return "x%X" % m[1]
    if m[0] == "pcoff":
        return "^" + str(m[1])
    name, off = m[1], m[2]
    if off == 0:
        return name
    return name + ("+" if off > 0 else "-") + str(abs(off))


def enc_mem(m):
    if m[0] == "addr":
        return [0, m[1]]
    if m[0] == "pcoff":
        return [1, s16(m[1])]
    name = [ord(c) for c in m[1]]
    return [2, len(name)] + name + [s16(m[2])]


def render_loc(l):
    return ("r%d" % l[1]) if l[0] == "reg" else render_mem(l[1])


def enc_loc(l):
    return [0, l[1]] if l[0] == "reg" else [1] + enc_mem(l[1])


def render(c):
    k = c[0]
    if k == "help": return "help"
    if k == "step": return "step"
    if k == "stepinto": return "step into" + ("" if c[1] is None else " " + str(c[1]))
    if k == "stepout": return "step out"
    if k == "continue": return "continue"
    if k == "registers": return "registers"
    if k == "print": return "print " + render_loc(c[1])
    if k == "move": return "move " + render_loc(c[1]) + " x%X" % c[2]
    if k == "goto": return "goto " + render_mem(c[1])
    if k == "assembly": return "assembly " + render_mem(c[1])
    if k == "eval": return "eval " + c[1]
    if k == "echo": return "echo " + c[1]
    if k == "reset": return "reset"
    if k == "quit": return "quit"
    if k == "exit": return "exit"
    if k == "breaklist": return "break list"
    if k == "breakadd": return "break add " + render_mem(c[1])
    if k == "breakremove": return "break remove " + render_mem(c[1])
    raise ValueError(k)


def encode(c):
    k = c[0]
    if k == "help": return [0]
    if k == "step": return [1]
    if k == "stepinto":
        n = 1 if c[1] is None else max(1, c[1])
        return [2, n]
    if k == "stepout": return [3]
    if k == "continue": return [4]
    if k == "registers": return [5]
    if k == "print": return [6] + enc_loc(c[1])
    if k == "move": return [7] + enc_loc(c[1]) + [c[2]]
    if k == "goto": return [8] + enc_mem(c[1])
    if k == "assembly": return [9] + enc_mem(c[1])
    if k == "eval":
        t = [ord(x) for x in c[1]]; return [10, len(t)] + t
    if k == "echo":
        t = [ord(x) for x in c[1]]; return [11, len(t)] + t
    if k == "reset": return [12]
    if k == "quit": return [13]
    if k == "exit": return [14]
    if k == "breaklist": return [15]
    if k == "breakadd": return [16] + enc_mem(c[1])
    if k == "breakremove": return [17] + enc_mem(c[1])
    raise ValueError(k)


READONLY = ["step", "stepinto", "stepout", "continue", "breakadd", "breakremove", "breaklist", "print", "registers",
            "assembly", "echo", "help"]
MUTATING = ["move", "goto", "eval", "reset"]

EVALS = ["str r1 r0 #-1", "str r7 r0 #-1", "sti r1 ptr2", "add r0 r0 #1", "add r1 r2 r3", "and r3 r3 #0", "not r4 r4", "ld r0 val", "st r1 save", "lea r2 msg", "ldr r1 r0 #0",
         "str r1 r0 #1", "jmp r2", "ret", "jsr fn", "jsrr r1", "ldi r3 dest", "sti r3 dest", "putn", "out", "reg",
         "br loop", "brz done", "rti", "halt", "trap x25", "trap x99", "trap x21", "add r1 r1 r1 r1", "add r1", "add",
         ".fill x1", "halt halt", "ld r0 nolabel", "push r1", "pop r2", "rets", "call fn", "xyz", "\"str\"", "#5"]


def gen_command(rnd, kind, orig, n):
    if kind in ("step", "stepout", "continue", "registers", "help", "reset", "breaklist", "quit", "exit"):
        return (kind,)
    if kind == "stepinto":
        return ("stepinto", rnd.choice([None, 0, 1, 1, 2, 3, 7, 100]))
    if kind == "print":
        return ("print", ("reg", rnd.randrange(8)) if rnd.random() < 0.4 else ("mem", gen_mem(rnd, orig, n)))
    if kind == "move":
        loc = ("reg", rnd.randrange(8)) if rnd.random() < 0.5 else ("mem", gen_mem(rnd, orig, n))
        return ("move", loc, rnd.choice([0, 1, 0x7FFF, 0x8000, 0xFFFF, 0xF025, 0x1021, rnd.randrange(65536)]))
    if kind in ("goto", "assembly", "breakadd", "breakremove"):
        return (kind, gen_mem(rnd, orig, n))
    if kind == "eval":
        return ("eval", rnd.choice(EVALS))
    if kind == "echo":
        return ("echo", rnd.choice(["hello", "a b c", "x1", "é"]))
    raise ValueError(kind)


def gen_script(rnd, kinds, orig, n, maxlen=30, end=None):
    k = rnd.randrange(0, maxlen + 1)
    cmds = [gen_command(rnd, rnd.choice(kinds), orig, n) for _ in range(k)]
    end = end if end is not None else rnd.choice(["quit", "exit", "eof", "eof"])
    if end in ("quit", "exit"):
        cmds.append((end,))
    return cmds


def script_text(rnd, cmds):
    parts = []
    for c in cmds:
        parts.append(render(c))
        parts.append(rnd.choice([";", "\n", "; ", " ;", "\n\n"]))
    return "".join(parts)


def nwords(text):
    n = 0
    for line in text.split("\n"):
        t = line.split()
        if not t or t[0].startswith("."):
            if t and t[0] == ".fill": n += 1
            continue
        if t[0].lower() in LABELS or t[0] in LABELS:
            t = t[1:]
        if not t or t[0] == ".break":
            continue
        if t[0] == ".stringz":
            n += len(t[1]) - 1
        else:
            n += 1
    return n


def dbg_case(feat, fuel, src, inp, cmds, text):
    s = [ord(c) for c in src]
    tx = [ord(c) for c in text]
    nums = [feat, fuel, len(s)] + s + [len(inp)] + list(inp) + [len(tx)] + tx + [len(cmds)]
    for c in cmds:
        nums += encode(c)
    return "DBG " + " ".join(f"{x:x}" for x in nums)


def decode_lines(lines):
    """-> (first-line fields as ints, stderr lines as text)"""
    first = [int(x, 16) for x in lines[0].split()] if lines else []
    err = ["".join(chr(int(x, 16)) for x in l.split()[1:]) for l in lines[1:]]
    return first, err


def split_first(first):
    """kind code pc cc r0..r7 nout out.. inpleft nmem (a v).. ticks execs cmds attached nbps (a p).."""
    if len(first) < 3:
        return None
    i = 0
    kind, code = first[0], first[1]
    pc, cc = first[2], first[3]
    regs = first[4:12]
    nout = first[12]
    out = first[13:13 + nout]
    i = 13 + nout
    inpleft = first[i]; i += 1
    nmem = first[i]; i += 1
    mem = first[i:i + 2 * nmem]; i += 2 * nmem
    ticks, execs, cmds, attached = first[i:i + 4]; i += 4
    nbps = first[i]; i += 1
    bps = first[i:i + 2 * nbps]
    return dict(kind=kind, code=code, pc=pc, cc=cc, regs=regs, out=out, inpleft=inpleft, mem=mem, ticks=ticks,
                execs=execs, cmds=cmds, attached=attached, bps=bps)
