"""asmcommon.py — shared correspondence loop for the assembler properties (ASM cases)."""
from core import log

DIAGS = {0: "lex::dir", 1: "lex::str_lit", 2: "lex::bad_lit", 3: "lex::unknown", 4: "lex::stack_extension",
         5: "preproc::bad_lit", 6: "preproc::stringz", 7: "duplicate_label", 8: "unexpected_token/lit_range",
         9: "unexpected_eof", 11: "too_long", 12: "orig_twice", 13: "label_not_found", 14: "offset_range", 99: "other"}


def decode_case(case):
    t = [int(x, 16) for x in case.split()[1:]]
    feat, n = t[0], t[1]
    i, srcs = 2, []
    for _ in range(n):
        reset, k = t[i], t[i + 1]
        srcs.append((reset, "".join(chr(c) for c in t[i + 2:i + 2 + k])))
        i += 2 + k
    return feat, srcs


def sections(t):
    """accepted line -> dict(image=[has_orig, orig, words..], bps=[..], spans=[..])"""
    n = int(t[3], 16)
    i = 4 + n
    nb = int(t[i], 16)
    j = i + 1 + 2 * nb
    return {"image": t[1:4 + n], "bps": t[i:j], "spans": t[j:]}


def same(la, lb, aux=()):
    """Implementation line vs model line -> (agree, outside_property).  Accepted images are compared completely;
    rejections by class only (the diagnostic's code and span are reported but not required to coincide).
    `aux`: what the property at hand does not speak about, among "bps", "spans", "image", "verdict": when only those
    differ the correspondence is broken but no input on which the property fails has been found."""
    ta, tb = la.split(), lb.split()
    if not ta or not tb:
        return False, False
    if ta[0] != tb[0]:
        # accepted vs rejected vs panic: a panic is never outside the property
        return False, ("verdict" in aux and "2" not in (ta[0], tb[0]))
    if ta[0] == "0":
        if ta == tb:
            return True, False
        try:
            sa, sb = sections(ta), sections(tb)
        except (ValueError, IndexError):
            return False, False
        diff = [k for k in ("image", "bps", "spans") if sa[k] != sb[k]]
        return False, all(k in aux for k in diff)
    return True, False


def line_sig(lb):
    t = lb.split()
    if t[0] == "0":
        return ("ok", min(int(t[3], 16), 4), min(int(t[4 + int(t[3], 16)], 16), 2))
    if t[0] == "1":
        return ("err", DIAGS.get(int(t[1], 16), t[1]))
    return ("panic",)


def run_asm_cases(ctx, cases, tags, violations, profiles=("debug",), limit=10, prop_note="", aux=()):
    """-> dict(evaluations, sigs, samples, hist, mismatches, diag_differs)"""
    evaluations, mismatches, diag_differs = 0, 0, 0
    sigs, samples, hist = set(), [], {}
    vkeys = set()
    for prof in profiles:
        ri, rm, crashes = ctx.run_both(cases, profile=prof, tag="asm")
        for c in crashes:
            idx = c.get("case_index")
            violations.append({"kind": "implementation-crashed", "profile": prof,
                               "case": cases[idx] if idx is not None else None,
                               "sources": decode_case(cases[idx])[1] if idx is not None else None,
                               "detail": c["tail"]})
        for ci, (a, b) in enumerate(zip(ri, rm)):
            if a is None:
                continue
            for k, lb in enumerate(b):
                la = a[k] if k < len(a) else ""
                evaluations += 1
                sig = (tags[ci],) + line_sig(lb)
                hist[str(sig[1:3])] = hist.get(str(sig[1:3]), 0) + 1
                if sig not in sigs:
                    sigs.add(sig)
                    if len(samples) < 8:
                        samples.append({"tag": tags[ci], "sources": decode_case(cases[ci])[1], "model": lb[:200]})
                ok, outside = same(la, lb, aux)
                bad_span = la.split()[-1:] == ["bad"] and la.split()[0] == "1"
                if ok and not bad_span:
                    if la.split()[0] == "1" and la.split()[1] != lb.split()[1]:
                        diag_differs += 1
                    continue
                mismatches += 1
                key = (prof, tags[ci], la.split()[:1], lb.split()[:2])
                if str(key) in vkeys or len(vkeys) >= limit:
                    continue
                vkeys.add(str(key))
                feat, srcs = decode_case(cases[ci])
                violations.append({"kind": "diagnostic-span-outside-source" if (ok and bad_span) else
                                           ("correspondence-differs-outside-the-property" if outside else "model-vs-implementation"),
                                   "no_failing_input": bool(outside and not (ok and bad_span)),
                                   "profile": prof, "tag": tags[ci], "case": cases[ci], "feature_stack": feat,
                                   "sources": srcs, "source_index": k, "implementation": la, "model": lb,
                                   "format": "0 has_orig orig nwords words.. nbps (addr predef).. nspans (offs len).. | 1 diag start len | 2 panic",
                                   "note": prop_note})
    return dict(evaluations=evaluations, sigs=sigs, samples=samples, hist=hist, mismatches=mismatches,
                diag_differs=diag_differs)


def replay_asm(ctx, payload):
    case = payload["case"]
    ri, rm, _ = ctx.run_both([case], profile=payload.get("profile", "debug"), tag="replay")
    log(f"sources        : {decode_case(case)[1]}")
    agree = True
    for k, lb in enumerate(rm[0]):
        la = ri[0][k] if ri[0] and k < len(ri[0]) else ""
        log(f"implementation : {la}")
        log(f"model          : {lb}")
        agree = agree and same(la, lb)[0] and la.split()[-1:] != ["bad"]
    log("agree" if agree else "DISAGREE")
    return 0 if agree else 1
