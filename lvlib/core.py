"""core.py — build steps, proof gate, correspondence runner, evidence and violation reporting."""
import fcntl, hashlib, importlib, json, os, re, shutil, signal, subprocess, sys, time
from concurrent.futures import ThreadPoolExecutor

ROOT = os.path.dirname(os.path.dirname(os.path.abspath(__file__)))
REPO = os.environ.get("LACE_REPO", "/repo")
CACHE = os.path.join(ROOT, ".cache")
COQ = os.path.join(ROOT, "coq")
OCAML = os.path.join(ROOT, "ocaml")
HARNESS = os.path.join(ROOT, "harness")
EVID = os.path.join(ROOT, "evidence")
REPLAYS = os.path.join(EVID, "replays")
TARGET = os.path.join(CACHE, "target")
NPROC = min(16, os.cpu_count() or 4)

ALLOWED_AXIOMS = set()   # nothing beyond "Closed under the global context" is accepted today

TRUSTED_BASE = [
    "Coq 8.16.1 kernel (coqc); vm_compute for the finite sweeps; native_compute not used",
    "axioms: none (every pinned theorem must print 'Closed under the global context')",
    "extraction: Require Import ExtrOcamlBasic only, no directive of our own; its directives: Extract Inductive bool => bool, option => option, unit => unit, list => list, prod => ( * ), sumbool => bool, sumor => option; Extract Inlined Constant andb => (&&), orb => (||); N/positive/Z/nat/string/ascii stay extracted datatypes",
    "ocaml/driver.ml (reads/prints hex numbers, no logic) and harness/ (Rust glue around lace's own functions)",
    "the lace_verif hooks in /repo (add-only; exits become unwinds, console I/O goes through buffers)",
    "the correspondence check is differential testing: the hand-written MODEL is tied to the code only on the inputs it runs",
]


def log(msg):
    print(msg, flush=True)


def sh(cmd, timeout=None, cwd=None, env=None, capture=True):
    e = dict(os.environ)
    e.setdefault("CARGO_NET_OFFLINE", "true")
    e["RUST_BACKTRACE"] = "0"
    if env:
        e.update(env)
    try:
        p = subprocess.run(cmd, shell=isinstance(cmd, str), cwd=cwd, env=e, timeout=timeout, stdin=subprocess.DEVNULL,
                           stdout=subprocess.PIPE if capture else None,
                           stderr=subprocess.STDOUT if capture else None, text=True, errors="replace")
        return p.returncode, p.stdout or ""
    except subprocess.TimeoutExpired as ex:
        out = ex.stdout or ""
        if isinstance(out, bytes):
            out = out.decode(errors="replace")
        return 124, out + "\n[timeout]"


STALL = int(os.environ.get("LV_STALL", "240"))


def run_watched(cmd, resfile, timeout=3600, stall=None, env=None):
    """Run a case runner that appends to `resfile` and flushes after every case.  It is killed when the results
    file has not grown for `stall` seconds (a case that does not terminate) or after `timeout` seconds overall;
    the caller finds the case that hung as the first one without a result."""
    stall = stall or STALL
    e = dict(os.environ)
    e.setdefault("CARGO_NET_OFFLINE", "true")
    e["RUST_BACKTRACE"] = "0"
    if env:
        e.update(env)
    logp = resfile + ".log"
    with open(logp, "w") as lf:
        p = subprocess.Popen(cmd, shell=True, env=e, stdin=subprocess.DEVNULL, stdout=lf, stderr=subprocess.STDOUT,
                             start_new_session=True)
        t0 = last = time.time()
        size = -1
        why = None
        while True:
            try:
                p.wait(timeout=0.05 if time.time() - t0 < 2 else 0.5)
                break
            except subprocess.TimeoutExpired:
                pass
            now = time.time()
            try:
                sz = os.path.getsize(resfile)
            except OSError:
                sz = -1
            if sz != size:
                size, last = sz, now
            if now - last > stall:
                why = f"[no result for {stall}s: the case after the last result does not terminate]"
            elif now - t0 > timeout:
                why = "[timeout]"
            if why:
                try:
                    os.killpg(p.pid, signal.SIGKILL)
                except OSError:
                    p.kill()
                p.wait()
                break
    out = open(logp, errors="replace").read()
    if why:
        return 124, out + "\n" + why
    return p.returncode, out


class Lock:
    def __init__(self, name):
        os.makedirs(CACHE, exist_ok=True)
        self.path = os.path.join(CACHE, name + ".lock")

    def __enter__(self):
        self.f = open(self.path, "w")
        fcntl.flock(self.f, fcntl.LOCK_EX)
        return self

    def __exit__(self, *a):
        fcntl.flock(self.f, fcntl.LOCK_UN)
        self.f.close()


# ---------------------------------------------------------------- Coq

FORBIDDEN = re.compile(
    r"\b(Admitted|admit|Axiom|Axioms|Parameter|Parameters|Conjecture|Conjectures|Hypothesis|Hypotheses|Variable|Variables|"
    r"Unset\s+Guard\s+Checking|Unset\s+Positivity\s+Checking|Unset\s+Universe\s+Checking|bypass_check|"
    r"Admit\s+Obligations|type-in-type|impredicative-set|native_compute)\b")


def strip_comments(src):
    out, depth, i = [], 0, 0
    while i < len(src):
        if src.startswith("(*", i):
            depth += 1; i += 2
        elif src.startswith("*)", i) and depth:
            depth -= 1; i += 2
        else:
            if depth == 0:
                out.append(src[i])
            i += 1
    return "".join(out)


def forbidden_scan():
    """Admitted/Axiom/... anywhere in the development.  Variable/Hypothesis are allowed only
    inside a Section (checked textually: between `Section X.` and `End X.`)."""
    bad = []
    for dp, _, fns in os.walk(os.path.join(COQ)):
        for fn in fns:
            if not fn.endswith(".v"):
                continue
            path = os.path.join(dp, fn)
            src = strip_comments(open(path).read())
            depth = 0
            for ln, line in enumerate(src.split("\n"), 1):
                if re.match(r"\s*Section\s+\w+\s*\.", line):
                    depth += 1
                elif re.match(r"\s*End\s+\w+\s*\.", line) and depth:
                    depth -= 1
                for m in FORBIDDEN.finditer(line):
                    word = m.group(1)
                    if word.startswith(("Variable", "Hypothes")) and depth > 0:
                        continue
                    bad.append(f"{os.path.relpath(path, ROOT)}:{ln}: {word}")
    return bad


def coq_make(target=None, timeout=2400):
    with Lock("coq"):
        mk = os.path.join(COQ, "Makefile")
        cp = os.path.join(COQ, "_CoqProject")
        if not os.path.exists(mk) or os.path.getmtime(mk) < os.path.getmtime(cp):
            rc, out = sh("coq_makefile -f _CoqProject -o Makefile", cwd=COQ, timeout=120)
            if rc != 0:
                return False, out
        os.makedirs(os.path.join(OCAML, "gen"), exist_ok=True)
        cmd = f"make -j{NPROC} " + (target or "")
        rc, out = sh(cmd, cwd=COQ, timeout=timeout)
        return rc == 0, out


def proof_gate(pid, tier="quick"):
    """Build the property's theorem file, check the pins and the assumptions."""
    res = {"ok": True, "failures": [], "obligations": 0, "discharged": 0, "theorems": [],
           "assumptions": {}}
    t0 = time.time()
    pins = os.path.join(COQ, "pins", f"{pid}.v")
    if not os.path.exists(pins):
        res["ok"] = False
        res["failures"].append(f"no pins file for {pid}")
        return res
    src = strip_comments(open(pins).read())
    names = re.findall(r"Print\s+Assumptions\s+([\w.]+)\s*\.", src)
    res["obligations"] = len(names)
    res["theorems"] = names
    bad = forbidden_scan()
    if bad:
        res["ok"] = False
        res["failures"].append("forbidden vernacular: " + "; ".join(bad[:5]))
    ok, out = coq_make(f"theories/Properties/{pid}.vo")
    if not ok:
        res["ok"] = False
        m = re.findall(r'File "([^"]+)", line (\d+)', out)
        where = f"{m[-1][0]}:{m[-1][1]}" if m else "?"
        res["failures"].append(f"coq build failed at {where}: " + out.strip().split("\n")[-1][:300])
        res["build_log"] = out[-3000:]
        res["wall_s"] = time.time() - t0
        return res
    # pins: statement checks + Print Assumptions, compiled fresh on every run
    os.makedirs(os.path.join(CACHE, "pins"), exist_ok=True)
    rc, out = sh(["coqc", "-noglob", "-Q", "theories", "Lace", "-o", os.path.join(CACHE, "pins", f"{pid}.vo"),
                  os.path.join("pins", f"{pid}.v")], cwd=COQ, timeout=600)
    if rc != 0:
        res["ok"] = False
        res["failures"].append("pinned statements no longer check: " + out.strip()[-400:])
        res["wall_s"] = time.time() - t0
        return res
    # parse assumption reports, in order
    chunks = re.split(r"(?m)^(?=Closed under the global context|Axioms:)", out)
    reports = [c for c in chunks if c.startswith(("Closed under", "Axioms:"))]
    for name, rep in zip(names, reports):
        if rep.startswith("Closed under"):
            res["assumptions"][name] = []
            res["discharged"] += 1
        else:
            axs = re.findall(r"(?m)^([\w.']+)\s*:", rep[len("Axioms:"):])
            res["assumptions"][name] = axs
            if set(axs) <= ALLOWED_AXIOMS:
                res["discharged"] += 1
            else:
                res["ok"] = False
                res["failures"].append(f"{name} depends on axioms {axs}")
    if len(reports) != len(names):
        res["ok"] = False
        res["failures"].append(f"expected {len(names)} assumption reports, got {len(reports)}")
    if tier == "thorough" and res["ok"]:
        # independent re-check of the compiled property file and everything it depends on
        rc, out = sh(["coqchk", "-silent", "-o", "-Q", "theories", "Lace", f"Lace.Properties.{pid}"], cwd=COQ, timeout=3000)
        res["coqchk"] = "ok" if rc == 0 else "failed"
        m = re.search(r"\* Axioms:(.*?)\n\s*\n", out, flags=re.S)
        axioms = m.group(1).strip() if m else "?"
        res["coqchk_axioms"] = axioms
        bad = [k for k in ("type-in-type", "unsafe (co)fixpoints", "positivity is assumed")
               if not re.search(re.escape(k) + r": <none>", out)]
        if rc != 0 or axioms != "<none>" or bad:
            res["ok"] = False
            res["failures"].append(f"coqchk: rc={rc} axioms={axioms} flags={bad}")
    res["wall_s"] = time.time() - t0
    return res


# ---------------------------------------------------------------- OCaml driver / Rust harness

def build_driver():
    with Lock("ocaml"):
        ok, out = coq_make("theories/Extract.vo")
        if not ok:
            return None, out
        gen = os.path.join(OCAML, "gen")
        ml = os.path.join(gen, "lace_model.ml")
        exe = os.path.join(gen, "driver")
        srcs = [ml, os.path.join(gen, "lace_model.mli"), os.path.join(OCAML, "driver.ml")]
        if os.path.exists(exe) and all(os.path.getmtime(exe) >= os.path.getmtime(s) for s in srcs):
            return exe, ""
        rc, out = sh("ocamlfind ocamlopt -O3 -w -a -I gen gen/lace_model.mli gen/lace_model.ml driver.ml -o gen/driver",
                     cwd=OCAML, timeout=600)
        if rc != 0 or not os.path.exists(exe):
            return None, out
        return exe, out


def repo_fingerprint():
    """Content hash of everything cargo compiles from the repository (path included): cargo's own freshness test is
    by mtime, which a restored / swapped tree with old timestamps would defeat."""
    h = hashlib.sha256(REPO.encode())
    roots = [os.path.join(REPO, d) for d in ("src", "tests", "benches", "examples")]
    files = [os.path.join(REPO, f) for f in ("Cargo.toml", "Cargo.lock", "build.rs")]
    for r in roots:
        for dp, dn, fn in os.walk(r):
            dn.sort()
            files += [os.path.join(dp, f) for f in sorted(fn)]
    for f in files:
        try:
            with open(f, "rb") as fh:
                h.update(f.encode()); h.update(b"\0"); h.update(fh.read()); h.update(b"\0")
        except OSError:
            pass
    return h.hexdigest()


def force_rebuild_if_changed(target_dir, stamp_name):
    """When the repository's contents differ from what the last build in `target_dir` saw, drop cargo's fingerprints
    of the lace crate (and of the harness that links it) so that the next `cargo build` recompiles them from the current
    working tree whatever the timestamps say.  Returns the fingerprint to record after a successful build."""
    fp = repo_fingerprint()
    stamp = os.path.join(target_dir, stamp_name)
    old = open(stamp).read().strip() if os.path.exists(stamp) else None
    if old != fp:
        for prof in ("debug", "release"):
            d = os.path.join(target_dir, prof, ".fingerprint")
            if os.path.isdir(d):
                for n in os.listdir(d):
                    if n.startswith("lace-"):
                        shutil.rmtree(os.path.join(d, n), ignore_errors=True)
        if os.path.exists(stamp):
            os.remove(stamp)
    return fp, stamp


def build_harness(profile="debug"):
    """Rebuild the harness (and lace inside it) from /repo's current working tree."""
    with Lock("cargo"):
        shutil.copyfile(os.path.join(REPO, "Cargo.lock"), os.path.join(HARNESS, "Cargo.lock"))
        tmpl = open(os.path.join(HARNESS, "Cargo.toml.in")).read().replace("@REPO@", REPO)
        ct = os.path.join(HARNESS, "Cargo.toml")
        if not os.path.exists(ct) or open(ct).read() != tmpl:
            open(ct, "w").write(tmpl)
        fp, stamp = force_rebuild_if_changed(TARGET, f".lv_repo_{profile}")
        cmd = "cargo build --offline" + (" --release" if profile == "release" else "")
        rc, out = sh(cmd, cwd=HARNESS, timeout=1800,
                     env={"RUSTFLAGS": "--cfg lace_verif", "CARGO_TARGET_DIR": TARGET})
        exe = os.path.join(TARGET, profile, "lace-verif-harness")
        if rc != 0 or not os.path.exists(exe):
            return None, out
        open(stamp, "w").write(fp)
        return exe, out


def build_lace_cli(profile="debug"):
    """The lace binary itself, from /repo's working tree, built WITHOUT the lace_verif guard: the CLI-level
    checks (C06, C07, C08, the transport part of C14) exercise the configuration users run, while the
    in-process harness exercises the hooked one; both are compared with the same model."""
    with Lock("cargo-cli"):
        cmd = "cargo build --offline --bin lace" + (" --release" if profile == "release" else "")
        tdir = os.path.join(CACHE, "target-plain")
        fp, stamp = force_rebuild_if_changed(tdir, f".lv_repo_{profile}")
        env = {"CARGO_TARGET_DIR": tdir}
        rc, out = sh("env -u RUSTFLAGS " + cmd, cwd=REPO, timeout=1800, env=env)
        exe = os.path.join(tdir, profile, "lace")
        if rc != 0 or not os.path.exists(exe):
            return None, out
        open(stamp, "w").write(fp)
        return exe, out


def parse_results(path):
    """-> list (one per case) of lists of lines"""
    cases = []
    with open(path) as f:
        for line in f:
            line = line.rstrip("\n")
            if line.startswith("# "):
                cases.append([])
            elif cases:
                cases[-1].append(line)
    return cases


def run_sharded(exe, cases, tag, workdir, timeout=3600, shards=None, stall=None):
    """Run `exe <cases> <results>` over the cases split round-robin into shards.
    Returns list of per-case result-line lists (None where a shard crashed before the case)."""
    shards = shards or NPROC
    shards = max(1, min(shards, len(cases)))
    buckets = [[] for _ in range(shards)]
    for i, c in enumerate(cases):
        buckets[i % shards].append((i, c))
    os.makedirs(workdir, exist_ok=True)

    def one(k):
        """-> (k, per-case results aligned with buckets[k] (None: no result), crash records).  After a crash or a
        hang the runner is restarted on the cases behind the one that did not return (at most 4 times)."""
        todo = list(range(len(buckets[k])))
        out_res = [None] * len(buckets[k])
        recs = []
        attempt = 0
        while todo:
            cf = os.path.join(workdir, f"{tag}.{k}.{attempt}.cases" if attempt else f"{tag}.{k}.cases")
            rf = os.path.join(workdir, f"{tag}.{k}.{attempt}.res" if attempt else f"{tag}.{k}.res")
            with open(cf, "w") as f:
                for j in todo:
                    f.write(buckets[k][j][1] + "\n")
            if os.path.exists(rf):
                os.remove(rf)
            # deep (non-tail) recursion of the extracted model on large inputs needs a large stack
            rc, out = run_watched(f"ulimit -s unlimited 2>/dev/null || ulimit -s 1000000; exec '{exe}' '{cf}' '{rf}'",
                                  rf, timeout=timeout, stall=stall, env={"NO_COLOR": "1"})
            res = parse_results(rf) if os.path.exists(rf) else []
            if rc != 0 and len(res) > 0 and len(res) <= len(todo) and not complete_results_file(rf):
                res = res[:-1]          # the last block was cut off by the kill
            for j, r in zip(todo, res):
                out_res[j] = r
            if len(res) >= len(todo):
                if rc != 0:
                    recs.append({"shard": k, "rc": rc, "case_index": None, "tail": out[-500:]})
                break
            bad = todo[len(res)]
            recs.append({"shard": k, "rc": rc, "case_index": buckets[k][bad][0], "tail": out[-500:],
                         "hung": rc == 124})
            todo = todo[len(res) + 1:]
            attempt += 1
            if attempt > 4:
                break
        return k, out_res, recs

    results = [None] * len(cases)
    crashes = []
    with ThreadPoolExecutor(max_workers=shards) as ex:
        for k, res, recs in ex.map(one, range(shards)):
            for (i, _), r in zip(buckets[k], res):
                results[i] = r
            crashes += recs
    return results, crashes


def complete_results_file(path):
    try:
        with open(path, "rb") as f:
            f.seek(0, 2)
            if f.tell() == 0:
                return True
            f.seek(-1, 2)
            return f.read(1) == b"\n"
    except OSError:
        return True


# ---------------------------------------------------------------- evidence / violations

def write_evidence(pid, tier, seed, gate, cov, wall, violations, assumptions=None):
    os.makedirs(EVID, exist_ok=True)
    coverage = {
        "obligations": max(gate.get("obligations", 0), 0),
        "discharged": gate.get("discharged", 0),
        "checker_cmd": f"make -C coq theories/Properties/{pid}.vo && coqc -Q theories Lace pins/{pid}.v (Check pins + Print Assumptions); forbidden-vernacular scan",
        "trusted_base": TRUSTED_BASE,
        "theorems": gate.get("theorems", []),
        "assumptions_reported": gate.get("assumptions", {}),
        "proof_gate_failures": gate.get("failures", []),
        "coqchk": gate.get("coqchk", "not run (thorough tier only)"), "coqchk_axioms": gate.get("coqchk_axioms", None),
    }
    coverage.update(cov)
    ev = {
        "property_id": pid, "tier": tier, "seed": seed, "level": "proof",
        "coverage": coverage,
        "assumptions": assumptions or [],
        "wall_s": round(wall, 2),
        "violations": violations,
    }
    with open(os.path.join(EVID, f"{pid}.json"), "w") as f:
        json.dump(ev, f, indent=1, sort_keys=True)
        f.write("\n")


def write_replay(pid, payload):
    os.makedirs(REPLAYS, exist_ok=True)
    blob = json.dumps(payload, sort_keys=True)
    h = hashlib.sha1(blob.encode()).hexdigest()[:12]
    path = os.path.join(REPLAYS, f"{pid}-{h}.json")
    payload = dict(payload)
    payload["replay_cmd"] = f"./lv replay {pid} {path}"
    with open(path, "w") as f:
        json.dump(payload, f, indent=1, sort_keys=True)
        f.write("\n")
    return path


def load_known():
    p = os.path.join(ROOT, "KNOWN_FINDINGS.json")
    if not os.path.exists(p):
        return []
    return json.load(open(p)).get("findings", [])


# ---------------------------------------------------------------- main

def load_prop(pid):
    sys.path.insert(0, os.path.join(ROOT, "lvlib"))
    return importlib.import_module(f"props.{pid}")


def cmd_setup():
    t0 = time.time()
    ok, out = coq_make()
    if not ok:
        log(out[-3000:]); log("setup: coq build FAILED"); return 1
    log(f"setup: coq ok ({time.time()-t0:.0f}s)")
    exe, out = build_driver()
    if not exe:
        log(out[-3000:]); log("setup: driver build FAILED"); return 1
    log("setup: driver ok")
    exe, out = build_harness("debug")
    if not exe:
        log(out[-3000:]); log("setup: harness build FAILED"); return 1
    log("setup: harness ok")
    exe, out = build_lace_cli("debug")
    if not exe:
        log(out[-3000:]); log("setup: lace cli build FAILED"); return 1
    log(f"setup: done ({time.time()-t0:.0f}s)")
    return 0


def cmd_check(pid, tier, seed):
    t0 = time.time()
    prop = load_prop(pid)
    for old in (os.listdir(REPLAYS) if os.path.isdir(REPLAYS) else []):
        if old.startswith(pid + "-"):
            os.remove(os.path.join(REPLAYS, old))
    ctx = Ctx(pid, tier, seed)
    gate = proof_gate(pid, tier)
    log(f"[{pid}] proof gate: {'ok' if gate['ok'] else 'FAILED'} "
        f"({gate['discharged']}/{gate['obligations']} theorems, {gate.get('wall_s', 0):.1f}s)")
    for f in gate["failures"]:
        log(f"[{pid}]   gate: {f}")
    ctx.gate = gate
    violations = []      # list of replay payloads
    known_hits = []
    cov = {}
    try:
        cov = prop.correspondence(ctx, violations, known_hits) or {}
    except InfraError as e:
        log(f"[{pid}] correspondence could not be run: {e}")
        violations.append({"kind": "correspondence-not-runnable", "detail": str(e)[-2000:],
                           "no_failing_input": True})
    n_viol = 0
    for kh in known_hits:
        log(f"KNOWN-FINDING: property={pid} {kh}")
    if not gate["ok"] and not any(not v.get("no_failing_input") for v in violations):
        violations.append({"kind": "proof-obligation-broken", "theorems": gate["theorems"],
                           "failures": gate["failures"], "build_log": gate.get("build_log", ""),
                           "no_failing_input": True})
    seen = set()
    for v in violations[:20]:
        v = dict(v); v["property"] = pid; v["tier"] = tier; v["seed"] = seed
        path = write_replay(pid, v)
        if path in seen:
            continue
        seen.add(path)
        suffix = " no-failing-input-found" if v.get("no_failing_input") else ""
        log(f"VIOLATION property={pid} replay={path}{suffix}")
        n_viol += 1
    cov.setdefault("evaluations", 0)
    write_evidence(pid, tier, seed, gate, cov, time.time() - t0, n_viol,
                   assumptions=getattr(prop, "ASSUMPTIONS", []))
    log(f"[{pid}] {tier}: {cov.get('evaluations', 0)} evaluations, {n_viol} violation(s), {time.time()-t0:.1f}s")
    return 1 if n_viol else 0


class InfraError(Exception):
    pass


class Ctx:
    def __init__(self, pid, tier, seed):
        self.pid, self.tier, self.seed = pid, tier, seed
        self.work = os.path.join(CACHE, "work", pid)
        shutil.rmtree(self.work, ignore_errors=True)
        os.makedirs(self.work, exist_ok=True)
        self._driver = None
        self._harness = {}
        self._cli = {}

    def driver(self):
        if not self._driver:
            exe, out = build_driver()
            if not exe:
                raise InfraError("model driver does not build: " + out[-1500:])
            self._driver = exe
        return self._driver

    def harness(self, profile="debug"):
        if profile not in self._harness:
            exe, out = build_harness(profile)
            if not exe:
                raise InfraError("harness does not build against /repo: " + out[-1500:])
            self._harness[profile] = exe
        return self._harness[profile]

    def cli(self, profile="debug"):
        if profile not in self._cli:
            exe, out = build_lace_cli(profile)
            if not exe:
                raise InfraError("lace does not build: " + out[-1500:])
            self._cli[profile] = exe
        return self._cli[profile]

    def run_both(self, cases, profile="debug", tag="c", timeout=3600):
        """-> (impl_results, model_results, crashes)"""
        h = self.harness(profile)
        d = self.driver()
        with ThreadPoolExecutor(max_workers=2) as ex:
            fi = ex.submit(run_sharded, h, cases, tag + "-impl-" + profile, self.work, timeout, None, getattr(self, "impl_stall", None))
            fm = ex.submit(run_sharded, d, cases, tag + "-model", self.work, timeout, None, 1800)      # (the model always terminates: see run_model)
            (ri, ci), (rm, cm) = fi.result(), fm.result()
        if cm:
            raise InfraError(f"model driver crashed: {cm[0]}")
        return ri, rm, ci

    def run_impl(self, cases, profile="debug", tag="i", timeout=3600):
        """implementation only -> (results, crashes)"""
        return run_sharded(self.harness(profile), cases, tag + "-impl-" + profile, self.work, timeout, None,
                           getattr(self, "impl_stall", None))

    def run_model(self, cases, tag="m", timeout=3600, stall=1800):
        # the model is extracted from total Coq functions: it always terminates, so a long silence is a long computation (the line
        # editor's model is quadratic in the line length) or a loaded machine, not a hang - the watchdog waits accordingly
        rm, cm = run_sharded(self.driver(), cases, tag, self.work, timeout, None, stall)
        if cm:
            raise InfraError(f"model driver crashed: {cm[0]}")
        return rm

    def cleanup(self):
        shutil.rmtree(self.work, ignore_errors=True)


def cmd_replay(pid, path):
    prop = load_prop(pid)
    payload = json.load(open(path))
    ctx = Ctx(pid, "quick", payload.get("seed", 0))
    if payload.get("no_failing_input"):
        gate = proof_gate(pid)
        log(json.dumps({"gate_ok": gate["ok"], "failures": gate["failures"]}, indent=1))
        return 0 if gate["ok"] else 1
    return prop.replay(ctx, payload)


def main(argv):
    if not argv:
        print(__doc__); return 2
    if argv[0] == "setup":
        return cmd_setup()
    if argv[0] == "check":
        pid = argv[1]
        tier = os.environ.get("VERIF_TIER", "quick")
        seed = int(os.environ.get("VERIF_SEED", "1") or 1)
        i = 2
        while i < len(argv):
            if argv[i] == "--tier":
                tier = argv[i + 1]; i += 2
            elif argv[i] == "--seed":
                seed = int(argv[i + 1]); i += 2
            else:
                i += 1
        return cmd_check(pid, tier, seed)
    if argv[0] == "replay":
        return cmd_replay(argv[1], argv[2])
    print("unknown command"); return 2
