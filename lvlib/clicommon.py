"""clicommon.py — running the real `lace` binary (built from LACE_REPO's working tree) for CLI-level checks."""
import os, shutil, subprocess
from concurrent.futures import ThreadPoolExecutor

RUNNING = "     Running emitted binary\n"


def run_cli(exe, args, cwd, stdin=b"", timeout=10):
    env = dict(os.environ)
    env["NO_COLOR"] = "1"
    env["RUST_BACKTRACE"] = "0"
    try:
        p = subprocess.run([exe] + args, cwd=cwd, input=stdin, stdout=subprocess.PIPE, stderr=subprocess.PIPE,
                           timeout=timeout, env=env)
        return p.returncode, p.stdout, p.stderr
    except subprocess.TimeoutExpired as e:
        return -9, e.stdout or b"", e.stderr or b""


def run_cli_fifo(exe, args, cwd, fifo_name, data, stdin=b"", timeout=10):
    """Like run_cli, with the file `fifo_name` (relative to cwd) being a NAMED PIPE through which `data` is delivered while the
    command runs (a file whose reported size is 0 and that can be read once)."""
    import threading
    path = os.path.join(cwd, fifo_name)
    if os.path.lexists(path):
        os.remove(path)
    os.mkfifo(path)
    def feed():
        try:
            fd = os.open(path, os.O_WRONLY)
            try:
                os.write(fd, data)
            finally:
                os.close(fd)
        except OSError:
            pass
    t = threading.Thread(target=feed, daemon=True)
    t.start()
    try:
        res = run_cli(exe, args, cwd, stdin=stdin, timeout=timeout)
    finally:
        # a command that never opened the pipe leaves the feeder blocked in open(): release it
        try:
            fd = os.open(path, os.O_RDONLY | os.O_NONBLOCK)
            os.close(fd)
        except OSError:
            pass
        t.join(2)
        try:
            os.remove(path)
        except OSError:
            pass
    return res


def program_output(stdout):
    """The program's own output: what follows the 'Running' banner, minus the 'Completed' line."""
    s = stdout.decode("utf-8", errors="replace")
    if RUNNING not in s:
        return None
    s = s.split(RUNNING, 1)[1]
    i = s.rfind("   Completed target ")
    if i >= 0 and s.endswith("\n") and "\n" not in s[i:-1]:
        s = s[:i]
    return s


def model_obs(line):
    """(exit status, output text or None) the CLI must show for a model result line (C03 encoding)."""
    t = [int(x, 16) for x in line.split()]
    kind = t[0]
    if kind in (5, 6):
        return t[1], None, kind
    if kind == 3:
        return None, None, kind
    nout = t[12]
    out = "".join(chr(c) for c in t[13:13 + nout])
    code = {0: 0, 1: t[1], 2: 101, 4: None}[kind]
    return code, out, kind


def parallel(jobs, workers=16):
    with ThreadPoolExecutor(max_workers=workers) as ex:
        return list(ex.map(lambda f: f(), jobs))


def fresh_dir(ctx, name):
    d = os.path.join(ctx.work, name)
    shutil.rmtree(d, ignore_errors=True)
    os.makedirs(d, exist_ok=True)
    return d


def gen_terminating_program(rnd):
    """Assembly text of a program that terminates and prints something."""
    k = rnd.randrange(8)
    if k == 0:
        s = rnd.choice(["Hello", "a b", "x\\ty", "é", "", "semi;colon"])
        return f'lea r0 s\nputs\nhalt\ns .stringz "{s}"\n'
    if k == 1:
        n = rnd.randrange(1, 12)
        return f"and r0 r0 #0\nadd r0 r0 #{n}\nand r1 r1 #0\nloop add r1 r1 r0\nadd r0 r0 #-1\nbrp loop\nadd r0 r1 #0\nputn\nhalt\n"
    if k == 2:
        v = rnd.randrange(-32768, 32768)
        return f"ld r0 v\nputn\nreg\nhalt\nv .fill #{v}\n"
    if k == 3:
        return "jsr f\nputn\nhalt\nf add r0 r0 #7\nret\n"
    if k == 4:
        o = rnd.choice([0x3000, 0x0, 0x4000, 0x8000, 0xFD00])
        return f".orig x{o:X}\nlea r0 msg\nputs\nhalt\nmsg .stringz \"o\"\n"
    if k == 5:
        return "ld r0 c\nout\nout\nhalt\nc .fill x41\n"      # no trailing newline in the output before HALT's banner
    if k == 6:
        return rnd.choice(["add r0 r0 #1\n", "trap x99\n", "ld r1 t\njmp r1\nt .fill x2000\n", "rti\n"])  # runs off / exception / panic
    return "getc\nout\nin\nhalt\n"
