"""asmgen.py — generators of LC-3 sources for the assembler properties (C01, C04, C05, C18, C19).

A program is a list of items: ('label', name) | ('break',) | ('orig', value) | ('stmt', mnemonic, operands).
Operands: ('reg', n) ('imm', v) ('lab', name) ('off', v) ('str', text) ('val', v).
`render` chooses a spelling for every token and a separator between tokens."""
import random

PCREL = {"br": 9, "brn": 9, "brz": 9, "brp": 9, "brnz": 9, "brzp": 9, "brnp": 9, "brnzp": 9,
         "ld": 9, "ldi": 9, "lea": 9, "st": 9, "sti": 9, "jsr": 11, "call": 10}
BRS = ["br", "brn", "brz", "brp", "brnz", "brzp", "brnp", "brnzp"]
TRAPS = ["getc", "out", "puts", "in", "putsp", "halt", "putn", "reg"]
LABEL_POOL = ["loop", "L1", "L_2", "done", "_t0", "Data", "xyz", "x_1", "Xg", "r8", "r10", "R", "1st", "0abc",
              "str1", "table", "A", "b", "zz_9", "ret_addr", "halted", "brx", "adder", "outp", "x", "xg1"]


def rand_label(rnd, used):
    for _ in range(50):
        name = rnd.choice(LABEL_POOL) if rnd.random() < 0.7 else "n" + str(rnd.randrange(10 ** 6))
        if rnd.random() < 0.2 and name not in ("x", "R", "r8", "b", "A"):
            name += str(rnd.randrange(100))
        if name not in used:
            used.add(name)
            return name
    name = "u" + str(len(used)) + "_" + str(rnd.randrange(10 ** 9))
    used.add(name)
    return name


def gen_statement(rnd, labels, stack):
    """One random valid statement; PC-relative ones reference a label from `labels` (fixed up later)."""
    r = lambda: ("reg", rnd.randrange(8))
    kind = rnd.randrange(20)
    if kind == 0:
        return ("add", [r(), r(), r()])
    if kind == 1:
        return ("add", [r(), r(), ("imm", rnd.choice([-16, -1, 0, 1, 15, rnd.randrange(-16, 16)]))])
    if kind == 2:
        return ("and", [r(), r(), r()])
    if kind == 3:
        return ("and", [r(), r(), ("imm", rnd.choice([-16, -1, 0, 15, rnd.randrange(-16, 16)]))])
    if kind == 4:
        return ("not", [r(), r()])
    if kind == 5:
        return (rnd.choice(BRS), [("lab", None)])
    if kind == 6:
        return (rnd.choice(["ld", "ldi", "lea", "st", "sti"]), [r(), ("lab", None)])
    if kind == 7:
        return (rnd.choice(["ldr", "str"]), [r(), r(), ("imm", rnd.choice([-32, -1, 0, 31, rnd.randrange(-32, 32)]))])
    if kind == 8:
        return (rnd.choice(["jmp", "jsrr"]), [r()])
    if kind == 9:
        return ("jsr", [("lab", None)])
    if kind == 10:
        return (rnd.choice(["ret", "rti"]), [])
    if kind == 11:
        return (rnd.choice(TRAPS), [])
    if kind == 12:
        return ("trap", [("val", rnd.choice([0, 0x20, 0x25, 0x7F, 0x80, 0xFF, rnd.randrange(256)]))])
    if kind == 13:
        return (".fill", [("val", rnd.choice([0, 1, 0x7FFF, 0x8000, 0xFFFF, rnd.randrange(65536)]))])
    if kind == 14:
        return (".blkw", [("val", rnd.choice([1, 1, 2, 3, rnd.randrange(1, 12)]))])
    if kind == 15:
        return (".stringz", [("str", rand_string(rnd))])
    if kind == 16:
        # literal PC offset
        m = rnd.choice(BRS + ["ld", "st", "lea", "jsr"])
        bits = PCREL[m]
        lim = 1 << (bits - 1)
        off = rnd.choice([-lim, -1, 0, 1, lim - 1, rnd.randrange(-lim, lim)])
        ops = [("off", off)] if m in BRS or m == "jsr" else [r(), ("off", off)]
        return (m, ops)
    if kind == 17 and stack:
        return (rnd.choice(["push", "pop"]), [r()])
    if kind == 18 and stack:
        return ("call", [("lab", None)])
    if kind == 19 and stack:
        return ("rets", [])
    return ("add", [r(), r(), r()])


ESC_ATOMS = ["\\\\", "\\n", "\\t", "\\r", "\\\"", "\\q", "n", "t", "r", "a", " ", "\\\\n", "\\\\t", "\\\\r", "\\\\\\\\"]


def rand_string(rnd):
    pool = ["Hello", "a b", "", "x", "\\n", "tab\\t", "q\\\"q", "back\\\\slash", "\\r", "\\z", "é", "日本", "😀",
            "semi;colon", "com,ma", "co:lon", "#1", "x3000", ".fill"]
    if rnd.random() < 0.4:
        # escape-heavy: sequences of escapes, escaped backslashes followed by n/t/r, lone letters
        return "".join(rnd.choice(ESC_ATOMS) for _ in range(rnd.randrange(1, 6)))
    return "".join(rnd.choice(pool) for _ in range(rnd.randrange(0, 3)))


def stmt_words(st):
    m, ops = st
    if m == ".blkw":
        return ops[0][1]
    if m == ".stringz":
        return len(unescape(ops[0][1])) + 1
    return 1


def unescape(s):
    out, i = [], 0
    while i < len(s):
        c = s[i]
        if c == "\\":
            if i + 1 >= len(s):
                out.append("\\"); i += 1; continue
            e = s[i + 1]
            m = {"n": "\n", "t": "\t", "r": "\r", "\\": "\\", '"': '"'}
            if e in m:
                out.append(m[e])
            else:
                out.append("\\"); out.append(e)
            i += 2
        else:
            out.append(c); i += 1
    return out


def gen_program(rnd, stack=False, nstmts=None, want_valid=True):
    n = nstmts if nstmts is not None else rnd.choice([1, 2, 3, 5, 8, 13, 30])
    stmts = [gen_statement(rnd, None, stack) for _ in range(n)]
    # addresses (in words) of each statement
    addr, a = [], 0
    for st in stmts:
        addr.append(a)
        a += stmt_words(st)
    total = a
    used = set()
    items = []
    # label positions: statement index -> name (labels may also sit after the last statement only with .break)
    labels_at = {}
    for i in range(n):
        if rnd.random() < 0.35:
            labels_at[i] = rand_label(rnd, used)
    if not labels_at:
        labels_at[rnd.randrange(n)] = rand_label(rnd, used)
    # fix up label operands: choose a label whose distance fits
    for i, (m, ops) in enumerate(stmts):
        for k, op in enumerate(ops):
            if op[0] == "lab":
                bits = PCREL[m]
                lim = 1 << (bits - 1)
                cands = [j for j in labels_at if -lim <= addr[j] - (addr[i] + 1) <= lim - 1]
                if cands or not want_valid:
                    j = rnd.choice(cands) if cands else rnd.choice(list(labels_at))
                    ops[k] = ("lab", labels_at[j])
                else:
                    labels_at.setdefault(i, rand_label(rnd, used))
                    ops[k] = ("lab", labels_at[i])
    orig = None
    if rnd.random() < 0.7:
        orig = rnd.choice([0x3000, 0x3000, 0, 1, 0x2FFF, 0x7FFF, 0x8000, 0xFDFF, 0xFFFF, rnd.randrange(65536)])
    orig_pos = rnd.choice([0, 0, 0, rnd.randrange(n + 1)]) if orig is not None else None
    for i, st in enumerate(stmts):
        if orig_pos == i:
            items.append(("orig", orig))
        if rnd.random() < 0.08:
            items.append(("break",))
        if i in labels_at:
            items.append(("label", labels_at[i]))
            if rnd.random() < 0.1:
                items.append(("break",))
        items.append(("stmt", st[0], st[1]))
    if orig_pos == n:
        items.append(("orig", orig))
    if rnd.random() < 0.05:
        items.append(("break",))
    return items


# ---------------------------------------------------------------- rendering

def case_mix(rnd, s, style):
    if style == "upper":
        return s.upper()
    if style == "lower":
        return s
    return "".join(c.upper() if rnd.random() < 0.5 else c for c in s)


def spell_num(rnd, v, signed_ok=True):
    """A spelling of the 16-bit value v (v may be negative: two's complement)."""
    u = v & 0xFFFF
    s = u - 65536 if u >= 32768 else u
    forms = []
    forms.append("#" + str(s))
    forms.append("#" + str(u))
    forms.append("x%X" % u)
    forms.append("x%x" % u)
    forms.append("0x%X" % u)
    forms.append("0X%04x" % u)
    forms.append("X%05X" % u if u < 0x1000 else "X%X" % u)
    if s < 0:
        forms.append("x-%X" % (-s))
        forms.append("0x-%x" % (-s))
        forms.append("#-%03d" % (-s))
    else:
        forms.append("#+%d" % s)
        forms.append("x+%X" % s if s <= 0x7FFF else "x%X" % u)
        forms.append("#%03d" % s)
    return rnd.choice(forms)


def sep(rnd, style, newline_ok=True):
    if style == "plain":
        return " "
    if style == "commas":
        return rnd.choice([",", ", ", " ,", ",,", ", ,"])
    if style == "colons":
        return rnd.choice([":", ": ", " : "])
    if style == "comments":
        return rnd.choice([" ;c\n", ";c\n", " ; add r0 r0 r0\n", ";\n", " ;é日😀\n"])
    choices = [" ", "  ", "\t", ", ", ",", " , ", ":", " : ", "\n", "\r\n", " \n ", "\x0c"]
    if newline_ok:
        choices += [" ; comment\n", ";x\n", "\n\n", " ;;\n"]
    return rnd.choice(choices)


def render(rnd, items, style="random", kwcase=None):
    kwcase = kwcase or rnd.choice(["lower", "upper", "mixed"])
    out = []
    lead = rnd.choice(["", "", "\n", "  ", "; header\n", ";\n\n", "\t"])
    out.append(lead if style == "random" else "")
    for it in items:
        if it[0] == "label":
            out.append(it[1])
            if rnd.random() < 0.3 and style in ("random", "colons"):
                out.append(":")
            out.append(sep(rnd, style if style != "plain" else "plain"))
        elif it[0] == "break":
            out.append(case_mix(rnd, ".break", kwcase))
            out.append(sep(rnd, style))
        elif it[0] == "orig":
            out.append(case_mix(rnd, ".orig", kwcase))
            out.append(sep(rnd, style, newline_ok=True))   # a comment here is fine: .orig reaches the parser
            out.append(spell_num(rnd, it[1]))
            out.append(sep(rnd, style))
        else:
            _, m, ops = it
            out.append(case_mix(rnd, m, kwcase))
            for op in ops:
                if m.startswith("."):
                    # lace wants the value of a data directive to follow it directly (whitespace only)
                    out.append(sep(rnd, "plain" if style == "comments" else style, newline_ok=False))
                else:
                    out.append(sep(rnd, style))
                if op[0] == "reg":
                    out.append(rnd.choice("rR") + str(op[1]))
                elif op[0] in ("imm", "off", "val"):
                    out.append(spell_num(rnd, op[1]))
                elif op[0] == "lab":
                    out.append(op[1])
                elif op[0] == "str":
                    out.append('"' + op[1] + '"')
            out.append(rnd.choice(["\n", "\n", " \n", "\n\n", " ; c\n", ";c\n"]) if style in ("random",) else
                       ("\n" if style != "comments" else ";k\n"))
    if rnd.random() < 0.3:
        out.append(case_mix(rnd, ".end", kwcase) + rnd.choice(["", "\n", "\nadd r0 r0 r0 garbage ` \n"]))
    return "".join(out)


def asm_case(feat, sources):
    """sources: list of (reset, text)"""
    nums = [feat, len(sources)]
    for reset, text in sources:
        cps = [ord(c) for c in text]
        nums += [1 if reset else 0, len(cps)] + cps
    return "ASM " + " ".join(f"{x:x}" for x in nums)


# ---------------------------------------------------------------- mutations (C05)

TOKENS_ANY = ["add", "and", "br", "brnzp", "jmp", "jsr", "jsrr", "ld", "ldi", "ldr", "lea", "not", "ret", "rti", "st",
              "sti", "str", "push", "pop", "call", "rets", "trap", "getc", "out", "puts", "in", "putsp", "halt", "putn",
              "reg", ".orig", ".end", ".fill", ".blkw", ".stringz", ".break", ".bogus", "r0", "R7", "r8", "r77", "#1",
              "#-1", "#", "#99999", "#-32769", "x3000", "xFFFF", "x10000", "x-8000", "x-8001", "0x", "x", "0",
              "label", "\"str\"", "\"open", "\"esc\\", "\"a\\\"b\"", "é", "xé", "ré", "#é", ".é", "日本", "😀", "x😀",
              "`", "$", "(", ")", "\\", ";", ",", ":", "\x00", "r0\x00", "\x0b", "\x7f", "x-", "x+", "#+", "#-",
              "+1", "-1", "0x1g", "0b1", "r0;", "#1;", "x1;c", "1;"]


def mutate(rnd, text):
    k = rnd.randrange(10)
    toks = text.split(" ")
    if k == 0 and len(toks) > 1:
        del toks[rnd.randrange(len(toks))]
        return " ".join(toks)
    if k == 1 and toks:
        i = rnd.randrange(len(toks)); toks.insert(i, toks[i]); return " ".join(toks)
    if k == 2 and len(toks) > 1:
        i, j = rnd.randrange(len(toks)), rnd.randrange(len(toks)); toks[i], toks[j] = toks[j], toks[i]
        return " ".join(toks)
    if k in (3, 4) and toks:
        toks[rnd.randrange(len(toks))] = rnd.choice(TOKENS_ANY); return " ".join(toks)
    if k == 5:
        i = rnd.randrange(len(text) + 1)
        return text[:i] + rnd.choice(["é", "日", "😀", " ", " ", "ß", "\x00"]) + text[i:]
    if k == 6 and text:
        i = rnd.randrange(len(text)); return text[:i] + text[i + 1:]
    if k == 7 and text:
        i = rnd.randrange(len(text))
        return text[:i] + chr(rnd.choice([rnd.randrange(32, 127), rnd.randrange(1, 32), rnd.randrange(0xA0, 0x800)])) + text[i + 1:]
    if k == 8:
        i = rnd.randrange(len(text) + 1); return text[:i] + rnd.choice(TOKENS_ANY) + text[i:]
    i = rnd.randrange(len(text) + 1)
    return text[:i] + " " + rnd.choice(TOKENS_ANY) + " " + text[i:]
