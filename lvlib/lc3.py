"""lc3.py — a tiny independent encoder for LC-3 instruction words (used only by generators)."""

def s(v, bits):
    return v & ((1 << bits) - 1)

def ADD(dr, sr1, sr2): return 0x1000 | dr << 9 | sr1 << 6 | sr2
def ADDI(dr, sr1, imm): return 0x1000 | dr << 9 | sr1 << 6 | 0x20 | s(imm, 5)
def AND(dr, sr1, sr2): return 0x5000 | dr << 9 | sr1 << 6 | sr2
def ANDI(dr, sr1, imm): return 0x5000 | dr << 9 | sr1 << 6 | 0x20 | s(imm, 5)
def NOT(dr, sr): return 0x9000 | dr << 9 | sr << 6 | 0x3F
def BR(nzp, off): return 0x0000 | nzp << 9 | s(off, 9)
def JMP(b): return 0xC000 | b << 6
RET = 0xC1C0
def JSR(off): return 0x4800 | s(off, 11)
def JSRR(b): return 0x4000 | b << 6
def LD(dr, off): return 0x2000 | dr << 9 | s(off, 9)
def LDI(dr, off): return 0xA000 | dr << 9 | s(off, 9)
def LDR(dr, b, off): return 0x6000 | dr << 9 | b << 6 | s(off, 6)
def LEA(dr, off): return 0xE000 | dr << 9 | s(off, 9)
def ST(sr, off): return 0x3000 | sr << 9 | s(off, 9)
def STI(sr, off): return 0xB000 | sr << 9 | s(off, 9)
def STR(sr, b, off): return 0x7000 | sr << 9 | b << 6 | s(off, 6)
def TRAP(v): return 0xF000 | v
GETC, OUT, PUTS, IN, PUTSP, HALT, PUTN, REG = (TRAP(x) for x in range(0x20, 0x28))
def PUSH(r): return 0xD400 | r << 6
def POP(r): return 0xD000 | r << 6
def CALL(off): return 0xDC00 | s(off, 10)
RETS = 0xD800
