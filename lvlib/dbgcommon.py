"""dbgcommon.py — shared correspondence loop for debugger sessions (DBG cases)."""
import dbggen
from core import log


def compare(a, b):
    """implementation lines vs model lines -> None if they agree, else a short reason."""
    if not a or not b:
        return "missing result"
    fa, ea = dbggen.decode_lines(a)
    fb, eb = dbggen.decode_lines(b)
    if fa == [9] or fb == [9]:
        return None if fa == fb else "assemble/load verdict differs"
    sa, sb = dbggen.split_first(fa), dbggen.split_first(fb)
    if sa is None or sb is None:
        return "malformed result"
    if sa["kind"] == 4 or sb["kind"] == 4:
        if sa["kind"] == 4 and sb["kind"] != 4 and sb["ticks"] * 2 + 16 < sa["ticks"]:
            return "implementation used up its iteration budget where the model finished (livelock?)"
        return None
    for k in ("kind", "code", "pc", "cc", "regs", "out", "inpleft", "mem", "execs", "cmds", "attached", "bps"):
        if sa[k] != sb[k]:
            return f"{k} differs"
    if ea != eb:
        return "debugger output differs"
    return None


def run_dbg_cases(ctx, cases, tags, violations, profiles=("debug",), limit=10, note="", extra=None):
    evaluations, mismatches, skipped = 0, 0, 0
    sigs, samples, hist = set(), [], {}
    vkeys = set()
    results = {}
    if getattr(ctx, "impl_stall", None) is None:
        ctx.impl_stall = 40       # a debugger session that gives no result for 40 s does not terminate (C16)
    for prof in profiles:
        ri, rm, crashes = ctx.run_both(cases, profile=prof, tag="dbg")
        results[prof] = (ri, rm)
        for c in crashes:
            idx = c.get("case_index")
            violations.append({"kind": "implementation-does-not-terminate" if c.get("hung") else "implementation-crashed", "profile": prof,
                               "case": cases[idx] if idx is not None else None, "detail": c["tail"]})
        for ci, (a, b) in enumerate(zip(ri, rm)):
            if a is None:
                continue
            evaluations += 1
            fb, eb = dbggen.decode_lines(b)
            sb = dbggen.split_first(fb) if fb != [9] else None
            if sb is None:
                sig = (tags[ci], "noload")
            else:
                if sb["kind"] == 4:
                    skipped += 1
                sig = (tags[ci], sb["kind"], sb["code"], min(sb["execs"], 3), min(len(eb), 3), min(len(sb["bps"]) // 2, 2))
            hist[str(sig[1])] = hist.get(str(sig[1]), 0) + 1
            if sig not in sigs:
                sigs.add(sig)
                if len(samples) < 8:
                    samples.append({"tag": tags[ci], "model_first_line": b[0][:120] if b else None, "model_stderr": eb[:6]})
            why = compare(a, b)
            if why is None and extra is not None:
                why = extra(ci, a, b)
            if why is None:
                continue
            mismatches += 1
            key = (prof, tags[ci], why)
            if str(key) in vkeys or len(vkeys) >= limit:
                continue
            vkeys.add(str(key))
            violations.append({"kind": "model-vs-implementation", "why": why, "profile": prof, "tag": tags[ci],
                               "case": cases[ci], "implementation": a, "model": b,
                               "implementation_stderr": dbggen.decode_lines(a)[1], "model_stderr": eb,
                               "format": "kind code pc cc r0..r7 nout out.. inpleft nmem (a v).. ticks execs cmds attached nbps (a p)..; then 7e + stderr line",
                               "note": note})
    return dict(evaluations=evaluations, sigs=sigs, samples=samples, hist=hist, mismatches=mismatches,
                skipped_budget=skipped, results=results)


def replay_dbg(ctx, payload):
    case = payload["case"]
    ri, rm, _ = ctx.run_both([case], profile=payload.get("profile", "debug"), tag="replay")
    for l in ri[0] or []:
        log("implementation : " + l)
    for l in rm[0] or []:
        log("model          : " + l)
    why = compare(ri[0], rm[0])
    log("agree" if why is None else "DISAGREE: " + why)
    return 0 if why is None else 1


def make_cases(rnd, specs, fuel=3000):
    """specs: list of (tag, feat, src, inp, cmds) -> (cases, tags)"""
    cases, tags = [], []
    for tag, feat, src, inp, cmds in specs:
        text = dbggen.script_text(rnd, cmds)
        cases.append(dbggen.dbg_case(feat, fuel, src, inp, cmds, text))
        tags.append(tag)
    return cases, tags


def coverage(r, rule, profiles, **more):
    cov = {
        "evaluations": r["evaluations"], "distinct_nontrivial": len(r["sigs"]), "rule": rule,
        "stop_kind_histogram": r["hist"], "samples": r["samples"], "mismatches": r["mismatches"],
        "skipped_for_budget": r["skipped_budget"], "profiles": list(profiles),
    }
    cov.update(more)
    return cov


def impl_fields(lines):
    f, e = dbggen.decode_lines(lines)
    return (dbggen.split_first(f) if f != [9] else None), e
