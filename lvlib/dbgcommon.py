"""dbgcommon.py — shared correspondence loop for debugger sessions (DBG cases)."""
import random, re
import dbggen
from core import log


def compare_all(a, b):
    """implementation lines vs model lines -> list of reasons why they differ (empty: they agree)."""
    if not a or not b:
        return ["missing result"]
    fa, ea = dbggen.decode_lines(a)
    fb, eb = dbggen.decode_lines(b)
    if fb == [8]:
        return []            # script text outside the domain of DebugText.v (a line that leaves the process)
    if fa == [9] or fb == [9]:
        return [] if fa == fb else ["assemble/load verdict differs"]
    sa, sb = dbggen.split_first(fa), dbggen.split_first(fb)
    if sa is None or sb is None:
        return ["malformed result"]
    if sa["kind"] == 4 or sb["kind"] == 4:
        if sa["kind"] == 4 and sb["kind"] != 4 and sb["ticks"] * 2 + 16 < sa["ticks"]:
            return ["implementation used up its iteration budget where the model finished (livelock?)"]
        return []
    why = [f"{k} differs" for k in ("kind", "code", "pc", "cc", "regs", "out", "inpleft", "mem", "execs", "cmds", "attached", "bps")
           if sa[k] != sb[k]]
    if ea != eb:
        # the WORDING of a message (`Reached::Breakpoint`, `CommandError`, ...) is outside every property; that a message
        # appears, and every data line (values, register dumps, statement text, breakpoint lists), is not
        if [msg_class(l) for l in ea] == [msg_class(l) for l in eb]:
            why.append("debugger message wording differs")
        else:
            why.append("debugger output differs")
    return why


MSG_RE = re.compile(r"^(?:[A-Za-z]+::[A-Za-z:]+|(?:[A-Z][a-z]+){2,})$")


def msg_class(line):
    return "<message>" if MSG_RE.match(line) else line


def compare(a, b):
    why = compare_all(a, b)
    return why[0] if why else None


def classify(why_all, aux):
    """-> (reason to report, outside_property): outside_property when every difference is among the observations the
    property does not speak about (`aux`): the correspondence is broken but no input on which the PROPERTY fails was found."""
    if not why_all:
        return None, False
    rel = [w for w in why_all if w not in aux and w != "debugger message wording differs"]
    if rel:
        return rel[0], False
    return why_all[0], True


def run_dbg_cases(ctx, cases, tags, violations, profiles=("debug",), limit=10, note="", extra=None, text_too=True, aux=()):
    evaluations, mismatches, skipped = 0, 0, 0
    sigs, samples, hist = set(), [], {}
    vkeys = set()
    results = {}
    if getattr(ctx, "impl_stall", None) is None:
        ctx.impl_stall = 40       # a debugger session that gives no result for 40 s does not terminate (C16)
    for prof in profiles:
        ri, rm, crashes = ctx.run_both(cases, profile=prof, tag="dbg")
        results[prof] = (ri, rm)
        for c in crashes:
            idx = c.get("case_index")
            violations.append({"kind": "implementation-does-not-terminate" if c.get("hung") else "implementation-crashed", "profile": prof,
                               "case": cases[idx] if idx is not None else None, "detail": c["tail"]})
        for ci, (a, b) in enumerate(zip(ri, rm)):
            if a is None:
                continue
            evaluations += 1
            fb, eb = dbggen.decode_lines(b)
            sb = dbggen.split_first(fb) if fb != [9] else None
            if sb is None:
                sig = (tags[ci], "noload")
            else:
                if sb["kind"] == 4:
                    skipped += 1
                sig = (tags[ci], sb["kind"], sb["code"], min(sb["execs"], 3), min(len(eb), 3), min(len(sb["bps"]) // 2, 2))
            hist[str(sig[1])] = hist.get(str(sig[1]), 0) + 1
            if sig not in sigs:
                sigs.add(sig)
                if len(samples) < 8:
                    samples.append({"tag": tags[ci], "model_first_line": b[0][:120] if b else None, "model_stderr": eb[:6]})
            why, outside = classify(compare_all(a, b), aux)
            if why is None and extra is not None:
                why = extra(ci, a, b)
            if why is None:
                continue
            mismatches += 1
            key = (prof, tags[ci], why)
            if str(key) in vkeys or len(vkeys) >= limit:
                continue
            vkeys.add(str(key))
            violations.append({"kind": "correspondence-differs-outside-the-property" if outside else "model-vs-implementation",
                               "no_failing_input": outside,
                               "why": why, "profile": prof, "tag": tags[ci],
                               "case": cases[ci], "implementation": a, "model": b,
                               "implementation_stderr": dbggen.decode_lines(a)[1], "model_stderr": eb,
                               "format": "kind code pc cc r0..r7 nout out.. inpleft nmem (a v).. ticks execs cmds attached nbps (a p)..; then 7e + stderr line",
                               "note": note})
    text_stats = None
    if text_too:
        # the same sessions with the script handed to the MODEL as text too (DebugText.v: readers + command parser
        # + debugger), so that the python-side encoding of commands is not part of what is trusted
        vr = random.Random(ctx.seed * 7919 + len(cases))
        tcases = [text_twin(c) for c in cases]
        ttags = list(tags)
        modes = {"twin": len(cases)}
        for ci, c in enumerate(cases):
            if c.startswith("DBG "):
                v, mode = text_variant(vr, c)
                tcases.append(v); ttags.append(tags[ci]); modes[mode] = modes.get(mode, 0) + 1
        ri, rm, crashes = ctx.run_both(tcases, profile=profiles[0], tag="dbgt")
        n, bad, n_outside = 0, 0, 0
        for c in crashes:
            idx = c.get("case_index")
            violations.append({"kind": "implementation-does-not-terminate" if c.get("hung") else "implementation-crashed",
                               "profile": profiles[0], "case": tcases[idx] if idx is not None else None, "detail": c["tail"]})
        for ci, (a, b) in enumerate(zip(ri, rm)):
            if a is None:
                continue
            n += 1
            if b and b[0].split() == ["8"]:
                n_outside += 1
            why, outside = classify(compare_all(a, b), aux)
            if why is None:
                continue
            bad += 1
            key = ("text", ttags[ci], why)
            if str(key) in vkeys or len(vkeys) >= limit:
                continue
            vkeys.add(str(key))
            violations.append({"kind": "correspondence-differs-outside-the-property" if outside else "model-vs-implementation",
                               "no_failing_input": outside, "why": why, "profile": profiles[0], "tag": ttags[ci] + ":text",
                               "case": tcases[ci], "implementation": a, "model": b,
                               "implementation_stderr": dbggen.decode_lines(a)[1], "model_stderr": dbggen.decode_lines(b)[1],
                               "format": "DBGT case: the model parses the script text itself (DebugText.v)", "note": note})
        evaluations += n
        mismatches += bad
        text_stats = {"sessions_with_script_as_text": n, "outside_domain": n_outside, "mismatches": bad, "transport": modes,
                      "rule": "every session twice more with the script given to the MODEL as text (DebugText.v): once verbatim in --command, once respelled (aliases, letter case, radix/sign spellings of every number), with rejected lines interleaved, through --command / stdin / split across both"}
    return dict(evaluations=evaluations, sigs=sigs, samples=samples, hist=hist, mismatches=mismatches,
                skipped_budget=skipped, results=results, text=text_stats)


def text_twin(case):
    """DBG case -> DBGT case: same program, input and script text (as the `--command` argument), no encoded commands."""
    t = case.split()
    assert t[0] == "DBG"
    x = [int(v, 16) for v in t[1:]]
    i = 2
    nsrc = x[i]; i += 1 + nsrc
    ninp = x[i]; i += 1 + ninp
    ntext = x[i]; text = x[i + 1:i + 1 + ntext]
    nums = x[:i] + [1, ntext] + text + [0]
    return "DBGT " + " ".join(f"{v:x}" for v in nums)


def replay_dbg(ctx, payload):
    if payload.get("kind") == "shared-stdin-session" and "script_on_stdin" in payload:
        # the real binary again: the script (and the program's input behind it) on stdin vs a plain run
        import clicommon, os, core
        exe, out = core.build_lace_cli()
        if exe is None:
            log(out[-2000:]); return 2
        d = clicommon.fresh_dir(ctx, "replayshared")
        f = os.path.join(d, "echo2.asm"); open(f, "w").write(ECHO2)
        sc, i = payload["script_on_stdin"], payload.get("program_input", "")
        rc, so, se = clicommon.run_cli(exe, ["debug", f, "--minimal"], d, stdin=(sc + i).encode(), timeout=20)
        prc, pso, pse = clicommon.run_cli(exe, ["run", f, "--minimal"], d, stdin=i.encode(), timeout=20)
        log(f"lace debug (script on stdin): exit {rc}, output {clicommon.program_output(so)!r}, stderr tail {se.decode('utf-8', errors='replace')[-200:]!r}")
        log(f"lace run                    : exit {prc}, output {clicommon.program_output(pso)!r}")
        log(f"recorded at check time      : exit {payload.get('cli_exit')} (model {payload.get('model_exit')}), why: {payload.get('why')}")
        same = rc == prc and clicommon.program_output(so) == clicommon.program_output(pso)
        if "multi-byte" in payload.get("why", "") or "plain run" in payload.get("why", ""):
            return 0 if same else 1
    case = payload["case"]
    if case is None:
        log("no case recorded")
        return 1
    ri, rm, _ = ctx.run_both([case], profile=payload.get("profile", "debug"), tag="replay")
    for l in ri[0] or []:
        log("implementation : " + l)
    for l in rm[0] or []:
        log("model          : " + l)
    why = compare(ri[0], rm[0])
    log("agree" if why is None else "DISAGREE: " + why)
    return 0 if why is None else 1


def make_cases(rnd, specs, fuel=3000):
    """specs: list of (tag, feat, src, inp, cmds) -> (cases, tags)"""
    cases, tags = [], []
    for tag, feat, src, inp, cmds in specs:
        text = dbggen.script_text(rnd, cmds)
        cases.append(dbggen.dbg_case(feat, fuel, src, inp, cmds, text))
        tags.append(tag)
    return cases, tags


def coverage(r, rule, profiles, **more):
    cov = {
        "evaluations": r["evaluations"], "distinct_nontrivial": len(r["sigs"]), "rule": rule,
        "stop_kind_histogram": r["hist"], "samples": r["samples"], "mismatches": r["mismatches"],
        "skipped_for_budget": r["skipped_budget"], "profiles": list(profiles),
        "script_as_text": r.get("text"),
    }
    cov.update(more)
    return cov


def impl_fields(lines):
    f, e = dbggen.decode_lines(lines)
    return (dbggen.split_first(f) if f != [9] else None), e


# ---------------------------------------------------------------- script text variants (DBGT)

ALIASES = {
    "help": ["h", "help", "--help", "-h", ":h", "man", "info", "wtf"],
    "continue": ["c", "continue", "cont"],
    "print": ["p", "print"], "move": ["m", "move"], "registers": ["r", "registers", "reg"],
    "goto": ["g", "goto"], "assembly": ["a", "assembly", "asm"], "eval": ["e", "eval", "evil", "evaluate"],
    "reset": ["z", "reset"], "echo": ["echo"], "quit": ["q", "quit"], "exit": ["x", "exit", ":q", ":wq", "^C"],
    "step": ["step", "s"],
    "step into": ["si", "stepinto", "step into", "step i", "s i", "s into"],
    "step out": ["so", "stepout", "step out", "s o", "step o"],
    "break list": ["bl", "breaklist", "break list", "b l", "break l", "b list"],
    "break add": ["ba", "breakadd", "break add", "b a", "b add"],
    "break remove": ["br", "breakremove", "break remove", "b r", "b remove"],
}
BAD_UTF8_LINES = [b"echo caf\xe9", b"\xff", b"print r\xc3", b"echo \xed\xa0\x80 x", b"\x80\x80", b"echo \xc0\x80", b"p\xe2\x86", b"echo \xf0\x9f\x8d",
                  b"registers\xc3", b"\xc3", b"echo \xf8\x88\x80\x80\x80", b"echo a\xe2\x86\x92\xe2b", b"\xf4\x90\x80\x80", b"step\x9f"]

JUNK = ["bogus", "prnt r0", "print r8", "print r0 r1", "move r1", "move r1 x10000", "move r1 -32769", "goto", "goto r1",
        "step in", "break", "break ad x3000", "b", "stepinto -1", "si x", "print 0x", "print ^", "p ^+", "goto ^x8000",
        "move nolabel+1 1", "assembly 1 2", "eval", "echo", "registers now", "quit now", "x x", "continue 1", "p lbl+",
        "print b+2", "goto x80000000g", "print 2147483648", "m r0 0b102", "g \u00e9", "print \U0001F600", "print r1+2", "  ", "",
        "\r", " \r ", "bogus\r", "help me", "p #-0", "p -#0", "p x-0", "p 00", "p 0x0", "p 0o7", "p o8", "move r0 --1", "move r0 +-1", "p -", "p +", "p #", "p ^^"]


def respell_int(rnd, tok):
    """A hexadecimal token xH (as the generators write it) in another radix/prefix spelling with the same value."""
    m = re.fullmatch(r"x([0-9A-Fa-f]+)", tok)
    if not m:
        return tok
    v = int(m.group(1), 16)
    forms = ["x%X" % v, "x%x" % v, "0x%x" % v, "X%X" % v, "#%d" % v, "%d" % v, "0%d" % v if v else "0", "o%o" % v, "0o%o" % v,
             "b%s" % bin(v)[2:], "0b%s" % bin(v)[2:], "+%d" % v, "+x%x" % v, "x+%x" % v, "#+%d" % v]
    if 0x8000 <= v <= 0xFFFF:
        forms += ["-%d" % (0x10000 - v), "-x%x" % (0x10000 - v), "x-%x" % (0x10000 - v), "#-%d" % (0x10000 - v)]
    return rnd.choice(forms)


def respell_line(rnd, line):
    t = line.split(" ")
    t = [w for w in t if w != ""]
    if not t:
        return line
    two = " ".join(t[:2]).lower()
    if two in ALIASES:
        head, rest = rnd.choice(ALIASES[two]), t[2:]
    elif t[0].lower() in ALIASES:
        head, rest = rnd.choice(ALIASES[t[0].lower()]), t[1:]
    else:
        return line
    if t[0].lower() in ("eval", "echo"):
        return head + " " + " ".join(rest)
    if rnd.random() < 0.4:
        head = "".join(c.upper() if rnd.random() < 0.5 else c for c in head)
    out = []
    for w in rest:
        m = re.fullmatch(r"\^(-?)(\d+)", w)
        if m:           # ^N as written by render_mem
            n = int(m.group(2))
            sign = m.group(1)
            body = rnd.choice(["%d" % n, "x%x" % n, "#%d" % n, "0x%X" % n, "o%o" % n])
            w = "^" + (sign if sign else rnd.choice(["", "+"])) + body
            if n == 0 and rnd.random() < 0.3:
                w = "^"
        else:
            m = re.fullmatch(r"([A-Za-z_][A-Za-z0-9_]*)([+-])(\d+)", w)
            if m and not re.fullmatch(r"[rR][0-7]", m.group(1)):
                n = int(m.group(3))
                w = m.group(1) + m.group(2) + rnd.choice(["%d" % n, "x%x" % n, "#%d" % n, "0x%X" % n])
            else:
                w = respell_int(rnd, w)
                if re.fullmatch(r"r[0-7]", w) and rnd.random() < 0.3:
                    w = w.upper()
        out.append(w)
    sep = rnd.choice([" ", " ", "  ", "   "])
    return rnd.choice(["", "", " "]) + sep.join([head] + out) + rnd.choice(["", "", " "])


def uses_console_input(src, text):
    low = (src + "\n" + text).lower()
    return bool(re.search(r"\b(getc|in|trap)\b", low))


def text_variant(rnd, case):
    """DBG case -> DBGT case whose script text is respelled (aliases, letter case, radix/sign spellings of every number),
    interleaved with lines the parser rejects, and handed over through --command, through the console stream, or split
    across both — with the program's input behind it on that same stream (DBGS, model DbgStream.v).
    Both sides parse the text themselves; the commands encoded in the DBG case are not used."""
    t = case.split()
    x = [int(v, 16) for v in t[1:]]
    i = 2
    nsrc = x[i]; src = "".join(map(chr, x[i + 1:i + 1 + nsrc])); i += 1 + nsrc
    ninp = x[i]; i += 1 + ninp
    ntext = x[i]; text = "".join(map(chr, x[i + 1:i + 1 + ntext]))
    lines = [l for l in re.split(r"[;\n]", text) if l.strip()]
    out = []
    for k, l in enumerate(lines):
        if rnd.random() < 0.25 and not (ninp and k == len(lines) - 1 and False):
            out.append(rnd.choice(JUNK))
        out.append(respell_line(rnd, l))
    if not ninp and rnd.random() < 0.3:
        out.append(rnd.choice(JUNK))
    parts = []
    for l in out:
        parts.append(l)
        parts.append(rnd.choice([";", "\n", "; ", " ;", "\n\n", ";;", "\n;", "\r\n", "\r\n", "\r;"]))   # incl. CRLF line ends
    # transport: the argument, the console stream, or split across both.  The console stream is ONE stream (DbgStream.v):
    # what the debugger does not read of it is the program's input, and the other way round, in the order they ask.
    mode = rnd.choice(["arg", "stream", "split", "split"])
    if mode == "arg":
        arg, stdin, has = "".join(parts), "", 1
    elif mode == "stream":
        arg, stdin, has = "", "".join(parts), 0
    else:
        cut = rnd.randrange(0, len(out) + 1) * 2
        arg, stdin, has = "".join(parts[:cut]), "".join(parts[cut:]), 1
        if arg and rnd.random() < 0.5:
            arg = arg.rstrip(";\n ")          # the argument need not end with a separator
    inp = x[i - ninp:i]
    # the argument is a string (characters); the stream is BYTES: the debugger's stdin reader decodes UTF-8 itself (Utf8.v)
    a = [ord(c) for c in arg]
    # and bytes need not be UTF-8 at all: lines with stray continuation bytes, truncated and overlong sequences, encoded
    # surrogates, xFF (the reader hands them on as U+FFFD and never swallows the separator behind them: Utf8.decode_lossy)
    sparts = list(parts) if mode == "stream" else (list(parts[cut:]) if mode == "split" else [])
    chunks = [q.encode("utf-8", errors="surrogatepass") for q in sparts]
    if chunks and rnd.random() < 0.3:
        for _ in range(rnd.randrange(1, 3)):
            at = rnd.randrange(0, len(chunks) // 2 + 1) * 2          # in front of a line
            bad = rnd.choice(BAD_UTF8_LINES) + rnd.choice([b"\n", b";", b"\r\n"])
            chunks.insert(at, bad); chunks.insert(at + 1, b"")
    stream = list(b"".join(chunks)) + inp
    nums = x[:i - ninp - 1] + [has, len(a)] + a + [len(stream)] + stream
    return "DBGS " + " ".join(f"{v:x}" for v in nums), mode


# ---------------------------------------------------------------- the real binary, hooks off

VM_MESSAGES = ("exception: ", "unexpected end of input file stream.", "You called a reserved instruction.",
               "Note: Run with `-f stack`", "Halting...")


def cli_full_vs_minimal(ctx, sessions, violations, tag="fullmin"):
    """sessions: (feat, src, script text).  The real binary WITHOUT --minimal (drawn tables, source excerpts, notes - code that
    does not run at all under --minimal) against the same session WITH it: the program's standard output and the exit status
    must be the same in both modes (what the debugger itself says goes to stderr in both).  The minimal mode is what the
    in-process runs and the other real-binary stages tie to the model, so this carries their verdict over to the other mode."""
    import clicommon, os
    exe = ctx.cli()
    d = clicommon.fresh_dir(ctx, tag)
    jobs = []
    for k, (feat, src, text) in enumerate(sessions):
        f = os.path.join(d, f"s{k}.asm")
        with open(f, "w", encoding="utf-8") as fh:
            fh.write(src)
        fl = ["-f", "stack"] if feat else []
        jobs.append(lambda f=f, fl=fl, t=text: (clicommon.run_cli(exe, ["debug", f, "--minimal"] + fl + ["--command", t], d, stdin=b"", timeout=20),
                                                clicommon.run_cli(exe, ["debug", f] + fl + ["--command", t], d, stdin=b"", timeout=20)))
    got = clicommon.parallel(jobs)
    n = bad = skipped = 0
    for (feat, src, text), ((mrc, mso, mse), (rc, so, se)) in zip(sessions, got):
        if mrc == -9 or rc == -9:
            skipped += 1
            continue
        n += 1
        if (mrc, mso) != (rc, so):
            bad += 1
            if bad <= 4:
                violations.append({"kind": "full-output-mode-differs-from-minimal", "source": src, "feature_stack": feat, "script": text,
                                   "minimal": [mrc, mso.decode("utf-8", "replace")[-400:]], "full": [rc, so.decode("utf-8", "replace")[-400:]],
                                   "full_stderr_tail": se.decode("utf-8", "replace")[-500:],
                                   "note": "`lace debug --command SCRIPT` with and without --minimal: same program output and exit status required"})
    return {"sessions": n, "skipped_nonterminating": skipped, "mismatches": bad}


def cli_cross(ctx, specs, violations, limit=40, tag="cli", with_eval=False):
    """A sample of the sessions through the REAL `lace debug --minimal` binary built WITHOUT the lace_verif guard
    (the configuration users run): exit status, program output and debugger stderr against the model (script as text,
    DebugText.v).  Ties the hooked in-process runs to the unhooked program.  Sessions using `eval` or `help` are left
    out (their stderr is rendered by miette / is the help text, canonicalised by hook markers only in-process)."""
    import clicommon, os
    exe = ctx.cli()
    rnd = random.Random(ctx.seed + 77)
    # with_eval: sessions using `eval` / `help` are included and compared on exit status and program output only
    picks = [sp for sp in specs if with_eval or not any(c[0] in ("eval", "help") for c in sp[4])]
    rnd.shuffle(picks)
    picks = picks[:limit]
    if not picks:
        return {"sessions": 0}
    d = clicommon.fresh_dir(ctx, "clidbg")
    cases, jobs = [], []
    for k, (tg, feat, src, inp, cmds) in enumerate(picks):
        text = dbggen.script_text(rnd, cmds)
        cases.append(text_twin(dbggen.dbg_case(feat, 3000, src, inp, cmds, text)))
        f = os.path.join(d, f"s{k}.asm")
        with open(f, "w", encoding="utf-8") as fh:
            fh.write(src)
        args = ["debug", f, "--minimal"] + (["-f", "stack"] if feat else []) + ["--command", text]
        jobs.append((lambda a=args, i=bytes(inp): clicommon.run_cli(exe, a, d, stdin=i, timeout=20)))
    model = ctx.run_model(cases, tag="clidbg")
    got = clicommon.parallel(jobs)
    n = bad = 0
    for (tg, feat, src, inp, cmds), case, m, (rc, so, se) in zip(picks, cases, model, got):
        fm, em = dbggen.decode_lines(m)
        sm = dbggen.split_first(fm) if fm not in ([9], [8]) else None
        if sm is None or sm["kind"] in (3, 4):
            continue
        n += 1
        want_rc = {0: 0, 1: sm["code"], 2: 101, 7: 0}[sm["kind"]]
        out = clicommon.program_output(so)
        want_out = "".join(chr(c) for c in sm["out"])
        err = [l for l in se.decode("utf-8", errors="replace").split("\n")
               if l and not any(l.startswith(v) for v in VM_MESSAGES)]
        if sm["kind"] == 2:
            # the model ends in a panic (exit status 101): the Rust runtime's own report of it is not debugger output
            cut = next((j for j, l in enumerate(err) if l.startswith("thread '") and "panicked at" in l), None)
            if cut is not None:
                err = err[:cut]
        why = None
        if rc != want_rc:
            why = f"exit status {rc}, model {want_rc}"
        elif out is None or out.rstrip("\n") != want_out.rstrip("\n"):
            why = "program output differs"
        elif err != em and not any(c[0] in ("eval", "help") for c in cmds):
            why = "debugger stderr differs"
        outside = bool(why == "debugger stderr differs" and [msg_class(l) for l in err] == [msg_class(l) for l in em])
        if outside:
            why = "debugger message wording differs"
        if why:
            bad += 1
            if bad <= 3:
                violations.append({"kind": "correspondence-differs-outside-the-property" if outside else "real-binary-vs-model",
                                   "no_failing_input": outside, "why": why, "tag": tg, "case": case, "source": src,
                                   "feature_stack": feat, "input": list(inp), "script": dbggen.script_text(random.Random(0), cmds),
                                   "cli_exit": rc, "cli_stdout": so.decode("utf-8", errors="replace")[-600:],
                                   "cli_stderr": err[-30:], "model_exit": want_rc, "model_out": want_out, "model_stderr": em[-30:]})
    return {"sessions": n, "mismatches": bad,
            "rule": "sessions through the real `lace debug --minimal --command ...` built WITHOUT --cfg lace_verif: exit status, program output, debugger stderr vs the model"}


ECHO2 = """        lea r0 msg
        puts
        getc
        out
        getc
        out
        in
        halt
msg     .stringz "in: "
"""


def cli_tty_stdin(ctx, violations):
    """The real binary with its standard input a TERMINAL (the debugger's interactive line editor, crossterm) and its
    standard output redirected to a file, as in `lace debug p.asm > out`: what the PROGRAM printed - the file - must be what
    a plain `lace run` prints; prompt, echo and line breaks of the editor belong on the terminal (stderr)."""
    import os, pty, subprocess, time, select
    import clicommon
    exe = ctx.cli()
    d = clicommon.fresh_dir(ctx, "clitty")
    os.makedirs(os.path.join(d, "cache"), exist_ok=True)
    progs = {"ab.asm": "ld r0 a\nout\nld r0 b\nout\nhalt\na .fill x41\nb .fill x42\n",
             "hello.asm": "lea r0 m\nputs\nld r0 c\nout\nhalt\nm .stringz \"hello\"\nc .fill x42\n"}
    for k, v in progs.items():
        open(os.path.join(d, k), "w").write(v)
    scripts = [("ab.asm", ["step", "registers", "continue", "quit"]), ("hello.asm", ["", "step into 2", "print r0", "", "quit"]),
               ("ab.asm", ["break add x3002", "continue", "break list", "continue", "quit"]), ("hello.asm", ["quit"])]
    env = dict(os.environ, HOME=d, XDG_CACHE_HOME=os.path.join(d, "cache"), TERM="xterm", NO_COLOR="1", RUST_BACKTRACE="0")
    n = bad = 0
    for si, (prog, lines) in enumerate(scripts):
        for slow in (1.0, 4.0):
            m, sl = pty.openpty()
            outp = os.path.join(d, "out%d.txt" % si)
            out = open(outp, "wb")
            p = subprocess.Popen([exe, "debug", prog], cwd=d, stdin=sl, stdout=out, stderr=sl, env=env, start_new_session=True)
            os.close(sl)
            def drain(q, lim):
                t0 = last = time.time()
                while time.time() - t0 < lim:
                    r, _, _ = select.select([m], [], [], 0.05)
                    if r:
                        try:
                            data = os.read(m, 65536)
                        except OSError:
                            return
                        if not data:
                            return
                        last = time.time()
                    elif time.time() - last >= q:
                        return
            drain(0.6 * slow, 6 * slow)
            for line in lines:
                for chh in line:
                    try:
                        os.write(m, chh.encode())
                    except OSError:
                        break
                    drain(0.03 * slow, 0.3 * slow)
                try:
                    os.write(m, b"\r")
                except OSError:
                    pass
                drain(0.5 * slow, 4 * slow)
            try:
                rc = p.wait(timeout=6)
            except subprocess.TimeoutExpired:
                p.kill(); p.wait(); rc = None
            out.close(); os.close(m)
            got = open(outp, "rb").read()
            plain = subprocess.run([exe, "run", prog], cwd=d, stdin=subprocess.DEVNULL, stdout=subprocess.PIPE, stderr=subprocess.PIPE, env=env)
            ok = rc == plain.returncode and clicommon.program_output(got) == clicommon.program_output(plain.stdout)
            if ok or rc is None and slow < 4:
                if ok:
                    break
        n += 1
        if not ok:
            bad += 1
            if bad <= 3:
                violations.append({"kind": "terminal-stdin-session", "why": "with the debugger's commands typed on a terminal and stdout redirected, the program's output differs from the plain run",
                                   "program": progs[prog], "typed_lines": lines, "exit": rc, "stdout_file": got.decode("utf-8", "replace")[-300:],
                                   "plain_exit": plain.returncode, "plain_stdout": plain.stdout.decode("utf-8", "replace")[-300:]})
    return {"sessions": n, "mismatches": bad, "rule": "real `lace debug FILE > out` with the commands typed on a pseudo-terminal: the redirected program output and the exit status equal a plain `lace run`'s"}


ECHO3 = """        jsr f
        call g
        getc
        out
        in
        halt
f       add r1 r1 #1
        ret
g       add r1 r1 #2
        rets
msg     .stringz "in: "
"""


def cli_shared_stream(ctx, violations, n=24):
    """The real binary (hooks off) with the debugger's script ON STANDARD INPUT, followed on the same stream by the
    program's console input: the debugger must consume exactly its own lines (up to and including `quit`) and leave the
    rest to the program.  Scripts: inspection commands, and `step`s that stop short of the first input instruction, then
    `quit`.  Compared with the model (DebugText.v, script = stdin text, program input = the rest) and with a plain
    `lace run` on the same input (transparency)."""
    import clicommon, os
    exe = ctx.cli()
    rnd = random.Random(ctx.seed + 4242)
    d = clicommon.fresh_dir(ctx, "clishared")
    f = os.path.join(d, "echo2.asm")
    open(f, "w").write(ECHO2)
    insp = ["registers", "print r0", "print r7", "break list", "break add x3006", "break remove x3006", "assembly x3000",
            "echo hello", "p msg", "bogus line", "print ^1"]
    cases, jobs, metas = [], [], []
    # designed: three breakpoints in front of the first input instruction, added in every order, one of them removed, then as
    # many `continue`s as breakpoints remain ahead - every pause happens before the program reads, so the session must equal
    # the plain run; a pause that is missed lets the program read the script's own text
    import itertools
    designed = []
    for perm in itertools.permutations(["x3000", "x3001", "x3002"]):
        for gone in ("x3000", "x3001", "x3002"):
            ahead = [a for a in ("x3001", "x3002") if a != gone]
            designed.append(["break add " + a for a in perm] + ["break remove " + gone] + ["continue"] * len(ahead) + ["break list", "quit"])
    # designed, with -f stack: leaving a JSR/RET and a CALL/RETS subroutine with `step out`, `step` over each call, before the
    # program's first input instruction - a pause that does not happen lets the program read the script
    f3 = os.path.join(d, "echo3.asm")
    open(f3, "w").write(ECHO3)
    designed3 = [["step into 1", "step out", "registers", "quit"], ["step", "step into 1", "step out", "quit"], ["step", "step", "quit"],
                 ["step into 1", "step out", "step into 1", "step out", "print r1", "quit"], ["break add g", "continue", "step out", "quit"],
                 ["step into 2", "step into 1", "step", "quit"], ["step out", "quit"]]
    for cmds in designed3:
        script = "\n".join(cmds) + "\n"
        inp = "7Z"
        src = [ord(c) for c in ECHO3]; stream = list((script + inp).encode("utf-8"))
        nums = [1, 3000, len(src)] + src + [0, 0, len(stream)] + stream
        cases.append("DBGS " + " ".join(f"{v:x}" for v in nums))
        jobs.append(lambda sc=script, i=inp: (clicommon.run_cli(exe, ["debug", f3, "--minimal", "-f", "stack"], d, stdin=(sc + i).encode(), timeout=20),
                                              clicommon.run_cli(exe, ["run", f3, "--minimal", "-f", "stack"], d, stdin=i.encode(), timeout=20)))
        metas.append((script, inp, True, False))
    for k in range(-len(designed), n):
        cmds = list(designed[k + len(designed)]) if k < 0 else [rnd.choice(insp) for _ in range(rnd.randrange(0, 5))]
        safe = True
        if k < 0:
            pass
        elif rnd.random() < 0.5:
            cmds.insert(rnd.randrange(len(cmds) + 1), rnd.choice(["step", "step into 2", "si 1"]))   # LEA, PUTS only
        if k >= 0 and k % 3 == 2:
            # anything goes: the program may read script text, the debugger may read program input (one stream)
            safe = False
            for _ in range(rnd.randrange(1, 4)):
                cmds.insert(rnd.randrange(len(cmds) + 1), rnd.choice(["step into 3", "si 5", "continue", "step", "s", "c", "step into 4"]))
        wide = safe and k >= 0 and k % 4 == 1
        if wide:
            # lines with 2-, 3- and 4-byte characters and with bytes that are NOT UTF-8 (stray continuation bytes, truncated
            # sequences, encoded surrogates, xFF): compared with the plain run (the debugger's own stdin decoder must hand every
            # line on, whole, whatever bytes it holds) and, below, with the model
            for _ in range(rnd.randrange(1, 4)):
                cmds.insert(rnd.randrange(len(cmds) + 1), "echo " + "".join(rnd.choice(["é", "→", "\U0001F34B", "a", " ", "\U00010000", "\U0010FFFF", "ß", "語", "\udce9", "\udcff", "\udcc3", "\udced\udca0\udc80", "\udce2\udc86", "\udc80"]) for _ in range(rnd.randrange(1, 6))))
        if k >= 0 and (safe or rnd.random() < 0.7):
            cmds.append(rnd.choice(["quit", "q", "QUIT"]))
        if k >= 0 and k % 5 == 3:
            # carriage returns: CRLF line ends (the CR belongs to the debugger's line, not to the program's input), and a CR
            # inside free text followed by what would be a command if the CR ended the line
            last_is_quit = bool(cmds) and cmds[-1].lower() in ("quit", "q")
            cmds.insert(rnd.randrange(len(cmds) + (0 if last_is_quit else 1)), rnd.choice(["echo progress\rreset", "echo done\rexit", "echo a\rmove r0 x41", "echo \rcontinue"]))
            sep = "\r\n"
            script = sep.join(cmds) + "\r\n"
        else:
            sep = rnd.choice(["\n", ";", "\n", " ;\n"])
            script = sep.join(cmds) + rnd.choice(["\n", ";"])
        inp = "".join(rnd.choice("XYZ19 ") for _ in range(rnd.randrange(0, 5)))
        src = [ord(c) for c in ECHO2]; stream = list((script + inp).encode("utf-8", "surrogateescape"))       # \udcXX stands for the raw byte XX
        nums = [0, 3000, len(src)] + src + [0, 0, len(stream)] + stream
        cases.append("DBGS " + " ".join(f"{v:x}" for v in nums))
        jobs.append(lambda sc=script, i=inp: (clicommon.run_cli(exe, ["debug", f, "--minimal"], d, stdin=(sc + i).encode("utf-8", "surrogateescape"), timeout=20),
                                              clicommon.run_cli(exe, ["run", f, "--minimal"], d, stdin=i.encode(), timeout=20)))
        metas.append((script, inp, safe, wide))
    model = ctx.run_model(cases, tag="clishared")
    got = clicommon.parallel(jobs)
    cnt = bad = 0
    for case, m, ((rc, so, se), (prc, pso, pse)), (script, inp, safe, wide) in zip(cases, model, got, metas):
        fm, em = dbggen.decode_lines(m)
        sm = dbggen.split_first(fm) if fm not in ([9], [8]) else None
        out = clicommon.program_output(so)
        pout = clicommon.program_output(pso)
        if wide:
            cnt += 1
            if rc != prc or out != pout:
                bad += 1
                if bad <= 3:
                    violations.append({"kind": "shared-stdin-session", "why": "debugged run (script with multi-byte characters on stdin) differs from the plain run on the same input",
                                       "case": case, "script_on_stdin": script.encode("utf-8", "surrogateescape").decode("utf-8", "backslashreplace"), "program_input": inp, "cli_exit": rc,
                                       "cli_stdout": so.decode("utf-8", errors="replace")[-400:], "cli_stderr": se.decode("utf-8", errors="replace")[-400:],
                                       "plain_exit": prc, "plain_stdout": pso.decode("utf-8", errors="replace")[-400:]})
                continue
            cnt -= 1
        if sm is None or sm["kind"] in (3, 4):
            continue
        cnt += 1
        want_rc = {0: 0, 1: sm["code"], 2: 101, 7: 0}[sm["kind"]]
        want_out = "".join(chr(c) for c in sm["out"])
        why = None
        if rc != want_rc:
            why = f"exit status {rc}, model {want_rc}"
        elif out is None or out.rstrip("\n") != want_out.rstrip("\n"):
            why = "program output differs from the model"
        elif safe and (rc != prc or out != pout):
            why = "debugged run differs from the plain run on the same input"
        if why:
            bad += 1
            if bad <= 3:
                violations.append({"kind": "shared-stdin-session", "why": why, "case": case, "script_on_stdin": script.encode("utf-8", "surrogateescape").decode("utf-8", "backslashreplace"),
                                   "program_input": inp, "cli_exit": rc, "cli_stdout": so.decode("utf-8", errors="replace")[-400:],
                                   "cli_stderr": se.decode("utf-8", errors="replace")[-400:], "plain_exit": prc,
                                   "plain_stdout": pso.decode("utf-8", errors="replace")[-400:], "model_exit": want_rc, "model_out": want_out})
    return {"sessions": cnt, "mismatches": bad,
            "rule": "real binary, script on stdin followed by the program's input on the same stream; vs the model and vs a plain `lace run`"}


def run_text_sessions(ctx, sessions, violations, aux=(), limit=10, note="", profile="debug"):
    """sessions: (tag, feat, src, inp, script_text) -> both sides run the text (DBGT, script in --command); no encoded commands
    are involved, so any spelling the parser accepts or rejects can be exercised."""
    cases = []
    for tg, feat, src, inp, text in sessions:
        sc = [ord(c) for c in src]; tx = [ord(c) for c in text]
        nums = [feat, 3000, len(sc)] + sc + [len(inp)] + list(inp) + [1, len(tx)] + tx + [0]
        cases.append("DBGT " + " ".join(f"{v:x}" for v in nums))
    ri, rm, crashes = ctx.run_both(cases, profile=profile, tag="dbgtext")
    n = bad = 0
    vkeys = set()
    for c in crashes:
        idx = c.get("case_index")
        violations.append({"kind": "implementation-does-not-terminate" if c.get("hung") else "implementation-crashed",
                           "profile": profile, "case": cases[idx] if idx is not None else None, "detail": c["tail"]})
    for (tg, feat, src, inp, text), case, a, b in zip(sessions, cases, ri, rm):
        if a is None:
            continue
        n += 1
        why, outside = classify(compare_all(a, b), aux)
        if why is None:
            continue
        bad += 1
        key = (tg, why)
        if key in vkeys or len(vkeys) >= limit:
            continue
        vkeys.add(key)
        violations.append({"kind": "correspondence-differs-outside-the-property" if outside else "model-vs-implementation",
                           "no_failing_input": outside, "why": why, "profile": profile, "tag": tg + ":text", "case": case,
                           "script": text, "implementation": a, "model": b,
                           "implementation_stderr": dbggen.decode_lines(a)[1], "model_stderr": dbggen.decode_lines(b)[1], "note": note})
    return {"sessions": n, "mismatches": bad}
